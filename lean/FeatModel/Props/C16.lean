import FeatModel.Model.Assembly
import FeatModel.Lemmas.C16_scatter
import FeatModel.Lemmas.C16_assembly
import FeatModel.Lemmas.C16_identities
import FeatModel.Lemmas.C16_banded
import FeatModel.Lemmas.C16_burgers
import FeatModel.Lemmas.C16_blocked
import FeatModel.Lemmas.C16_history
import FeatModel.Lemmas.C16_local
import FeatModel.Lemmas.C16_trace
import FeatModel.Model.Hooks
/-!
# C16 — property theorems (statements only; proofs live in Lemmas/C16_*.lean)

All theorems are about the model functions the driver `drv_c16` executes (`scatterAxpy`, `symbolicGraph1/2`,
`assemble`, `vecScatterAxpy`, `bandedScatterAxpy`), for every commutative ring of scalars, every pattern,
every DOF table, every local matrix and every number of cells (no size bounds).
`Pattern.apply p data x r = (A x)_r` is the dense meaning of a CSR data array.

What is proved about the local integrals (see the sections at the end): on affine cells (identity, Laplace, Du:Dv blocks,
force; Lagrange-1/2) and on multilinear quadrilaterals (identity, force: `det J` polynomial) the local entries as coded are
the exact integrals for a rule that is exact on the integrand's monomials; facet entries of the 3-D trace assembler on
facets in coordinate planes likewise. The hypotheses (monomials of the integrand inside the rule's exactness set, sign of
the determinant in the cubature points) are decidable and evaluated by the driver on every `flocal` case.

What is *not* proved (observed by the correspondence run with the exact oracle only):
* the identification `polyInt = Lebesgue integral` (the integral of a polynomial is *defined* by C14's reference monomial
  integrals and the change of variables) and `det J ≥ 0` on the whole cell (only in the cubature points);
* Laplace-type operators on non-affine quadrilaterals/hexahedra (rational integrand: no rule is exact), hexahedra and
  tetrahedra in general (the local model covers `d ≤ 2`; 3-D only through the facet theorem), RT/CR/P0 spaces;
* the Burgers convection / streamline-diffusion terms as integrals (only the per-cell parameter logic and the route
  equality are proved/observed), stress-divergence / strain-rate local entries (entry-by-entry comparison with the
  scalar operators in the `operators` stream), trace integrals on facets in skew planes (`jac_det` is a square root);
* the voxel assemblers (double only: rounding-bound comparison, supporting evidence), Gauss-type rules (rounded tables;
  C14's exactness is up to 2^-40, not exact).
`C16.FullStatement` records the full claim.
-/
open FeatModel.Asm FeatModel.Adj FeatModel.Burgers FeatModel.LocalFE

/-- the full property, for reference: for exact local integrals the assembled operator is the exact bilinear form.
The theorems below prove the assembly-logic part of it: `A = Σ_cells P_cᵀ loc_c P_c` on every route/order, and the
identities that follow from local properties. -/
def C16.FullStatement : Prop :=
  ∀ (nT nS : Nat) (tm sm : List (List Nat)) (g : Graph) (calls : List (CellCall Rat)),
    symbolicGraph2 nT nS tm sm = some g →
    (∀ l ∈ tm, ∀ r ∈ l, r < nT) → (∀ l ∈ sm, ∀ s ∈ l, s < nS) →
    (∀ c ∈ calls, ∃ k, c.rowMap = tm.getD k [] ∧ c.colMap = sm.getD k []) →
    ∃ st, assemble (Pattern.ofGraph g) calls = some st ∧
      ∀ (x : Nat → Rat) (r : Nat), (Pattern.ofGraph g).apply st.data x r = (calls.map fun c => c.alpha * c.contrib x r).sum

/-- **scatter_sound**: on a well-formed pattern that contains every coupling `(rowMap i, colMap j)` of the call, whatever
the `_col_ptr` scratch array holds from earlier calls, `ScatterAxpy::operator()` succeeds and the dense meaning of the
data array becomes `⟦A⟧ + α · P_rowᵀ · loc · P_col` (as operators: for every vector `x` and row `r`). -/
theorem C16.scatter_sound {α : Type} [CommRing α] (p : Pattern) (st : ScatterSt α) (c : CellCall α)
    (hwf : p.wf = true) (hd : st.data.size = p.colIdx.length) (hcp : st.colPtr.size = p.cols)
    (hcov : c.covered p = true) :
    ∃ st', scatterAxpy p st c.loc c.rowMap c.colMap c.alpha = some st' ∧ st'.data.size = st.data.size ∧
      st'.colPtr.size = p.cols ∧
      ∀ (x : Nat → α) (r : Nat), p.apply st'.data x r = p.apply st.data x r + c.alpha * c.contrib x r :=
  C16L.scatterAxpy_spec p st c (by rw [hd]; exact (C16L.wf_mono p hwf).segOK) hcp hcov

/-- the hypotheses of `scatter_sound` are satisfiable by a non-trivial value (two rows sharing a column) -/
example : (⟨2, 3, [0, 2, 3], [0, 2, 2]⟩ : Pattern).wf = true ∧
    (⟨1, [0, 1], [2], fun _ _ => 5⟩ : CellCall Int).covered ⟨2, 3, [0, 2, 3], [0, 2, 2]⟩ = true := by decide

/-- **the excluded point, kept visible (stale slot)**: column 2 is missing from row 1 of the pattern; the slot `_col_ptr[2]`
still points into row 0, so the contribution of row 1 (`6`) is silently added to the entry `(0,2)`. -/
theorem C16.scatter_unsound_witness :
    let p : Pattern := ⟨2, 3, [0, 2, 3], [0, 2, 1]⟩
    let c : CellCall Int := ⟨1, [0, 1], [2], fun i _ => if i = 0 then 4 else 6⟩
    p.wf = true ∧ c.covered p = false ∧
    (scatterAxpy p (ScatterSt.fresh p #[1, 2, 3]) c.loc c.rowMap c.colMap c.alpha).map (·.data.toList) = some [1, 12, 3] := by
  decide

/-- **the excluded point (first touch)**: a missing column whose `_col_ptr` slot was never written reads uninitialised
memory (`new IT_[num_cols]` without initialisation in non-DEBUG builds); the model reports failure. -/
theorem C16.scatter_uninit_witness :
    let p : Pattern := ⟨2, 3, [0, 2, 3], [0, 2, 1]⟩
    (scatterAxpy p (ScatterSt.fresh p #[(1 : Int), 2, 3]) (fun _ _ => 1) [0] [1] 1).isNone = true := by
  decide

/-- **symbolic_complete**: every coupling `(test dof r, trial dof s)` of every cell is present in the sparsity pattern
built by `SymbolicAssembler::assemble_graph_std2` (transposed test map ∘ trial map, injectify_sorted). -/
theorem C16.symbolic_complete (nT nS : Nat) (tm sm : List (List Nat)) (g : Graph)
    (hg : symbolicGraph2 nT nS tm sm = some g) (cell r s : Nat)
    (hr : r ∈ tm.getD cell []) (hs : s ∈ sm.getD cell []) (hrT : r < nT) :
    (Pattern.ofGraph g).hasCol r s = true :=
  C16L.symbolic_complete nT nS tm sm g hg cell r s hr hs hrT

/-- the one-space variant `assemble_graph_std1` is the two-space variant with both spaces equal -/
theorem C16.symbolic_std1_eq_std2 (n : Nat) (maps : List (List Nat)) :
    symbolicGraph1 n maps = symbolicGraph2 n n maps maps := by
  simp [symbolicGraph1, symbolicGraph2]

/-- the symbolic assembly succeeds whenever both DOF tables have the same number of cells, with the right dimensions -/
theorem C16.symbolic_total (nT nS : Nat) (tm sm : List (List Nat)) (h : tm.length = sm.length) :
    ∃ g, symbolicGraph2 nT nS tm sm = some g ∧ g.nDom = nT ∧ g.nImg = nS := by
  have : ∃ g, symbolicGraph2 nT nS tm sm = some g := by
    simp [symbolicGraph2, Graph.renderComposite, Graph.render, Graph.nDom, Graph.transpose, h]
  obtain ⟨g, hg⟩ := this
  exact ⟨g, hg, C16L.symbolic_dims ⟨nT, tm⟩ ⟨nS, sm⟩ g (C16L.symbolic2_unfold nT nS tm sm g hg)⟩

/-- **assembled_eq_sum**: format + one scatter object + loop over any sequence of cells (any order, cells may repeat):
the assembly on the symbolic pattern never touches a missing or stale slot and the assembled operator is
`Σ_cells α_c · P_cᵀ · loc_c · P_c`, for arbitrary local matrices. -/
theorem C16.assembled_eq_sum {α : Type} [CommRing α] (nT nS : Nat) (tm sm : List (List Nat)) (g : Graph)
    (hg : symbolicGraph2 nT nS tm sm = some g)
    (hT : ∀ l ∈ tm, ∀ r ∈ l, r < nT) (hS : ∀ l ∈ sm, ∀ s ∈ l, s < nS)
    (calls : List (CellCall α))
    (hcalls : ∀ c ∈ calls, ∃ k, c.rowMap = tm.getD k [] ∧ c.colMap = sm.getD k []) :
    ∃ st, assemble (Pattern.ofGraph g) calls = some st ∧ st.data.size = g.imageIdx.length ∧
      ∀ (x : Nat → α) (r : Nat),
        (Pattern.ofGraph g).apply st.data x r = (calls.map fun c => c.alpha * c.contrib x r).sum :=
  C16L.assembled_eq_sum nT nS tm sm g hg hT hS calls hcalls

/-- a non-trivial instance (two cells sharing DOF 1, P1 mass matrices of two unit intervals scaled by 6), evaluated -/
example :
    (symbolicGraph1 3 [[0, 1], [1, 2]]).map (fun g => (Pattern.ofGraph g).rowPtr) = some [0, 2, 5, 7] ∧
    ((symbolicGraph1 3 [[0, 1], [1, 2]]).bind fun g =>
      (assemble (α := Int) (Pattern.ofGraph g)
        [⟨1, [0, 1], [0, 1], fun i j => if i = j then 2 else 1⟩, ⟨1, [1, 2], [1, 2], fun i j => if i = j then 2 else 1⟩]).map
        (·.data.toList)) = some [2, 1, 1, 4, 1, 1, 2] := by decide

/-- **routes_agree**: the classic cell loop, the domain-assembler job (any cell order, any thread layering executed
serially) and any other route that scatters the same multiset of cell contributions produce the same operator. -/
theorem C16.routes_agree {α : Type} [CommRing α] (nT nS : Nat) (tm sm : List (List Nat)) (g : Graph)
    (hg : symbolicGraph2 nT nS tm sm = some g)
    (hT : ∀ l ∈ tm, ∀ r ∈ l, r < nT) (hS : ∀ l ∈ sm, ∀ s ∈ l, s < nS)
    (calls1 calls2 : List (CellCall α)) (hperm : calls1.Perm calls2)
    (hcalls : ∀ c ∈ calls1, ∃ k, c.rowMap = tm.getD k [] ∧ c.colMap = sm.getD k []) :
    ∃ st1 st2, assemble (Pattern.ofGraph g) calls1 = some st1 ∧ assemble (Pattern.ofGraph g) calls2 = some st2 ∧
      ∀ (x : Nat → α) (r : Nat), (Pattern.ofGraph g).apply st1.data x r = (Pattern.ofGraph g).apply st2.data x r := by
  obtain ⟨st1, h1, _, s1⟩ := C16L.assembled_eq_sum nT nS tm sm g hg hT hS calls1 hcalls
  obtain ⟨st2, h2, _, s2⟩ := C16L.assembled_eq_sum nT nS tm sm g hg hT hS calls2
    (fun c hc => hcalls c (hperm.mem_iff.mpr hc))
  exact ⟨st1, st2, h1, h2, fun x r => by rw [s1 x r, s2 x r]; exact C16L.sum_perm calls1 calls2 hperm x r⟩

/-- **kernel**: if every local matrix has zero row sums (constants in the kernel of the local operator, e.g. `Σ_j ∇φ_j = 0`),
the assembled matrix annihilates the constant vector: `A·1 = 0`. -/
theorem C16.kernel_annihilates_constants {α : Type} [CommRing α] (nT nS : Nat) (tm sm : List (List Nat)) (g : Graph)
    (hg : symbolicGraph2 nT nS tm sm = some g)
    (hT : ∀ l ∈ tm, ∀ r ∈ l, r < nT) (hS : ∀ l ∈ sm, ∀ s ∈ l, s < nS)
    (calls : List (CellCall α))
    (hcalls : ∀ c ∈ calls, ∃ k, c.rowMap = tm.getD k [] ∧ c.colMap = sm.getD k [])
    (hloc : ∀ c ∈ calls, ∀ i, (c.colMap.zipIdx.map fun (q : Nat × Nat) => c.loc i q.2).sum = 0) :
    ∃ st, assemble (Pattern.ofGraph g) calls = some st ∧
      ∀ r, (Pattern.ofGraph g).apply st.data (fun _ => 1) r = 0 := by
  obtain ⟨st, h, _, s⟩ := C16L.assembled_eq_sum nT nS tm sm g hg hT hS calls hcalls
  refine ⟨st, h, fun r => ?_⟩
  rw [s]
  apply List.sum_eq_zero
  intro y hy
  obtain ⟨c, hc, rfl⟩ := List.mem_map.mp hy
  rw [C16L.contrib_const_zero c (hloc c hc) r, mul_zero]

/-- **total**: the sum of all entries of the assembled matrix (`1ᵀ A 1`) is the sum over the cells of `α_c` times the sum of
the entries of the local matrix (for the mass matrix with a partition of unity: `Σ_c Σ_q w_q |det J_q|`). -/
theorem C16.total_sum {α : Type} [CommRing α] (nT nS : Nat) (tm sm : List (List Nat)) (g : Graph)
    (hg : symbolicGraph2 nT nS tm sm = some g)
    (hT : ∀ l ∈ tm, ∀ r ∈ l, r < nT) (hS : ∀ l ∈ sm, ∀ s ∈ l, s < nS)
    (calls : List (CellCall α))
    (hcalls : ∀ c ∈ calls, ∃ k, c.rowMap = tm.getD k [] ∧ c.colMap = sm.getD k []) :
    ∃ st, assemble (Pattern.ofGraph g) calls = some st ∧
      ((List.range nT).map fun r => (Pattern.ofGraph g).apply st.data (fun _ => 1) r).sum =
        (calls.map fun c => c.alpha *
          (c.rowMap.zipIdx.map fun (p : Nat × Nat) => (c.colMap.zipIdx.map fun (q : Nat × Nat) => c.loc p.2 q.2).sum).sum).sum := by
  obtain ⟨st, h, _, s⟩ := C16L.assembled_eq_sum nT nS tm sm g hg hT hS calls hcalls
  refine ⟨st, h, ?_⟩
  simp only [s]
  rw [C16L.sum_comm_list]
  apply congrArg
  apply List.map_congr_left
  intro c hc
  rw [C16L.sum_mul_left]
  congr 1
  apply C16L.contrib_total
  obtain ⟨k, hk, _⟩ := hcalls c hc
  intro ix hix
  rw [hk] at hix
  rcases C16L.getD_mem_or_nil tm k with h' | h'
  · exact hT _ h' ix hix
  · rw [h'] at hix; cases hix

/-- **symmetric forms give symmetric matrices**: one space, symmetric local matrices => `A_rs = A_sr`
(entries read off by applying the operator to unit vectors). -/
theorem C16.symmetric_form_symmetric {α : Type} [CommRing α] (n : Nat) (maps : List (List Nat)) (g : Graph)
    (hg : symbolicGraph1 n maps = some g)
    (hT : ∀ l ∈ maps, ∀ r ∈ l, r < n)
    (calls : List (CellCall α))
    (hcalls : ∀ c ∈ calls, ∃ k, c.rowMap = maps.getD k [] ∧ c.colMap = maps.getD k [])
    (hloc : ∀ c ∈ calls, ∀ i j, c.loc i j = c.loc j i) :
    ∃ st, assemble (Pattern.ofGraph g) calls = some st ∧
      ∀ r s, (Pattern.ofGraph g).apply st.data (fun j => if j = s then 1 else 0) r =
             (Pattern.ofGraph g).apply st.data (fun j => if j = r then 1 else 0) s := by
  rw [C16.symbolic_std1_eq_std2] at hg
  obtain ⟨st, h, _, sem⟩ := C16L.assembled_eq_sum n n maps maps g hg hT hT calls hcalls
  refine ⟨st, h, fun r s => ?_⟩
  rw [sem, sem]
  apply congrArg
  apply List.map_congr_left
  intro c hc
  obtain ⟨k, h1, h2⟩ := hcalls c hc
  have := C16L.contrib_symm c (by rw [h1, h2]) (hloc c hc) r s
  exact congrArg (c.alpha * ·) this

/-- **vector scatter**: `DenseVector::ScatterAxpy` adds `α · Σ_{i : map i = n} loc i` to entry `n` (repeated indices add up). -/
theorem C16.vec_scatter_sound {α : Type} [CommRing α] (d : Array α) (loc : Nat → α) (map : List Nat) (alpha : α) (n : Nat)
    (hmap : ∀ ix ∈ map, ix < d.size) :
    (vecScatterAxpy d loc map alpha).getD n 0 =
      d.getD n 0 + alpha * (map.zipIdx.map fun (p : Nat × Nat) => if p.1 = n then loc p.2 else 0).sum :=
  C16L.vecScatter_spec d loc alpha map.zipIdx n (fun ix _ h => hmap ix (C16L.fst_mem_of_mem_zipIdx _ _ _ _ h))

/-- **banded_scatter_sound** (square *and* rectangular matrices; the defect F12 of DESIGN §5 is fixed by a38ae1004):
if every coupling `(rowMap i, colMap j)` lies on a stored band inside the `rows × cols` matrix, whatever the `_col_ptr`
scratch array holds from earlier calls, `SparseMatrixBanded::ScatterAxpy::operator()` succeeds and the dense meaning of
the data array becomes `⟦A⟧ + α · P_rowᵀ · loc · P_col` on every row of the matrix. -/
theorem C16.banded_scatter_sound {α : Type} [CommRing α] (rows cols : Nat) (offsets : List Nat) (st : ScatterSt α)
    (c : CellCall α) (hd : st.data.size = offsets.length * rows) (hcp : st.colPtr.size = cols)
    (hcov : bandedCovered rows cols offsets c.rowMap c.colMap = true) :
    ∃ st', bandedScatterAxpy rows cols offsets st c.loc c.rowMap c.colMap c.alpha = some st' ∧
      st'.data.size = st.data.size ∧ st'.colPtr.size = cols ∧
      ∀ (x : Nat → α) (r : Nat), r < rows →
        bandedApply rows cols offsets st'.data x r = bandedApply rows cols offsets st.data x r + c.alpha * c.contrib x r :=
  C16L.bandedScatter_spec rows cols offsets st c hd hcp hcov

/-- the inputs that failed with the old column test `off+ix+1 < 2*rows`, on a fresh scatter object:
2×3 matrix with offsets {1,3}: the entry (0,2) (data index 2) now receives its value; 1×2 matrix with offset 1;
and a 3×1 matrix (rows > cols) where the old test wrote past the `_col_ptr` array. -/
example :
    bandedCovered 2 3 [1, 3] [0] [2] = true ∧
    (bandedScatterAxpy 2 3 [1, 3] ⟨#[none, none, none], #[(0 : Int), 0, 0, 0]⟩ (fun _ _ => 5) [0] [2] 1).map
      (·.data.toList) = some [0, 0, 5, 0] ∧
    (bandedScatterAxpy 1 2 [1] ⟨#[none, none], #[(0 : Int)]⟩ (fun _ _ => 1) [0] [1] 1).map (·.data.toList) = some [1] ∧
    (bandedScatterAxpy 3 1 [1, 2] ⟨#[none], #[(0 : Int), 0, 0, 0, 0, 0]⟩ (fun i _ => if i = 0 then 1 else 2) [0, 1] [0] 1).map
      (·.data.toList) = some [0, 2, 0, 1, 0, 0] := by decide

/-- **burgers_cellwise**: the streamline-diffusion scatter calls produced by the *stateful* cell loop of the Burgers routes
(`local_delta` survives from cell to cell; reset and recomputed only under `need_streamdiff`, recomputed only if
`|v_bary| > tol`, used only under `need_streamdiff && local_delta > tol`) are, for every initial state and every sequence
of cells, the per-cell contributions computed from each cell alone. A route that leaks `local_delta` from one cell to
the next therefore disagrees with this model. -/
theorem C16.burgers_cellwise {α : Type} [Add α] [Mul α] [Div α] [OfNat α 0] [OfNat α 1] [OfNat α 2] [LT α] [DecidableLT α]
    (p : Params α) (prev : α) (cells : List (Cell α)) :
    sdCalls p prev cells = cells.map (sdCellCall p) :=
  C16L.sdCalls_eq_map p prev cells

/-- with streamline diffusion switched on, the sequence of `local_delta` values of one task is the per-cell formula -/
theorem C16.burgers_delta_cellwise {α : Type} [Add α] [Mul α] [Div α] [OfNat α 0] [OfNat α 1] [OfNat α 2] [LT α] [DecidableLT α]
    (p : Params α) (prev : α) (l : List (α × α)) (hs : p.needSD = true) :
    deltaSeq p prev l = l.map fun q => localDelta p q.1 q.2 :=
  C16L.deltaSeq_eq_map p prev l hs

/-- documented `δ_T = 0`: a cell whose barycentre velocity vanishes (`¬ |v| > tol`) gets `local_delta = 0` and, the
tolerance being non-negative, a zero streamline-diffusion local matrix — whatever the previous cell left behind -/
theorem C16.burgers_stagnation_zero {α : Type} [Add α] [Mul α] [Div α] [OfNat α 0] [OfNat α 1] [OfNat α 2] [LT α] [DecidableLT α]
    (p : Params α) (prev : α) (c : Cell α) (t : List (Cell α)) (hv : ¬ c.normV > p.tol) (htol : ¬ (0 : α) > p.tol) :
    localDelta p c.normV c.h = 0 ∧
    ∃ rest, sdCalls p prev (c :: t) = ⟨1, c.map, c.map, fun _ _ => 0⟩ :: rest := by
  have h0 : localDelta p c.normV c.h = 0 := by simp [localDelta, hv]
  refine ⟨h0, (t.map (sdCellCall p)), ?_⟩
  have hz : sdLocal p 0 c.m = fun _ _ => 0 := by
    funext i j
    simp [sdLocal, htol]
  rw [C16L.sdCalls_eq_map]
  simp only [List.map_cons, sdCellCall, h0, hz]

/-- **burgers_sd_assembled**: the streamline-diffusion part assembled by the stateful loop on the symbolic pattern is the
sum over the cells of a term that depends on that cell only (any initial state, any cell order, cells may repeat). -/
theorem C16.burgers_sd_assembled {α : Type} [Field α] [LT α] [DecidableLT α] (n : Nat) (maps : List (List Nat)) (g : Graph)
    (hg : symbolicGraph1 n maps = some g) (hT : ∀ l ∈ maps, ∀ r ∈ l, r < n)
    (p : Params α) (prev : α) (cells : List (Cell α)) (hcells : ∀ c ∈ cells, ∃ k, c.map = maps.getD k []) :
    ∃ st, assemble (Pattern.ofGraph g) (sdCalls p prev cells) = some st ∧
      ∀ (x : Nat → α) (r : Nat),
        (Pattern.ofGraph g).apply st.data x r = (cells.map fun c => (sdCellCall p c).contrib x r).sum := by
  rw [C16.symbolic_std1_eq_std2] at hg
  rw [C16L.sdCalls_eq_map]
  obtain ⟨st, h, _, sem⟩ := C16L.assembled_eq_sum n n maps maps g hg hT hT (cells.map (sdCellCall p))
    (fun c hc => by
      obtain ⟨c', hc', rfl⟩ := List.mem_map.mp hc
      obtain ⟨k, hk⟩ := hcells c' hc'
      exact ⟨k, hk, hk⟩)
  refine ⟨st, h, fun x r => ?_⟩
  rw [sem, List.map_map]
  apply congrArg
  apply List.map_congr_left
  intro c _
  simp [sdCellCall]

/-- a stagnation cell between two cells with flow, evaluated: the middle `local_delta` is 0, not the previous cell's value -/
example : deltaSeq (⟨0, 6, 1, 1, true⟩ : Params Int) 0 [(1, 1), (0, 0), (2, 1)] = [6, 0, 8] := by decide

/-- **block_route_agree**: reading the component `e = a*w + b` of every block of the blocked (BCSR) assembly gives exactly
the data array of the scalar (CSR) assembly of the `(a,b)` components of the local block matrices — including failure
(`none` on both sides) on an incomplete pattern. Hence: if the local matrices of a scalar block operator (e.g.
`DuDvOperator(ir,ic)`) equal the `(ir,ic)` components of the local matrices of the blocked operator
(`DuDvOperatorBlocked`), the assembled scalar matrix is the `(ir,ic)` block of the assembled blocked matrix, entry by
entry, on every pattern, for every cell order. -/
theorem C16.block_route_agree {α : Type} [Add α] [Mul α] [Zero α] (p : Pattern) (n e : Nat) (he : e < n)
    (callsB : List (CellCallB α)) (hlen : ∀ c ∈ callsB, ∀ i j, (c.loc i j).length = n)
    (calls : List (CellCall α)) (hmatch : calls = callsB.map fun c => c.comp e) :
    (assembleB p n callsB).map (fun st => st.data.map fun b => b.getD e 0) = (assemble p calls).map (·.data) := by
  rw [hmatch]
  exact C16L.assembleB_proj n e he p callsB hlen

/-- a blocked 2x2 assembly of two cells sharing a dof and its (0,1) component, evaluated -/
example :
    (assembleB (α := Int) ⟨2, 2, [0, 2, 4], [0, 1, 0, 1]⟩ 4
      [⟨1, [0, 1], [0, 1], fun i j => [1, (i : Int) + 2 * j, 0, 1]⟩, ⟨2, [1], [1], fun _ _ => [1, 5, 0, 1]⟩]).map
      (fun st => st.data.toList) = some [[1, 0, 0, 1], [1, 2, 0, 1], [1, 1, 0, 1], [3, 13, 0, 3]] := by decide

/-- **history_independent**: a sequence of assembler calls served by one process — the only state the model lets survive a
call is the freed, never initialised `_col_ptr` scratch array, which the next scatter object may get back with arbitrary
old content — yields for every request exactly the value of that request assembled alone, for every initial heap content
and every sequence of requests whose couplings are covered by their patterns: "same result for the same input, for
every history". An implementation whose result depends on earlier calls (a cached cubature rule, a kept local matrix, …)
disagrees with this model in the `history` correspondence stream. -/
theorem C16.history_independent {α : Type} [Add α] [Mul α] [Zero α] (leftover : Array (Option Nat))
    (reqs : List (Request α)) (hcov : ∀ r ∈ reqs, r.covered = true) :
    assembleSeq leftover reqs = reqs.map fun r => (assemble r.p r.calls).map (·.data) :=
  C16L.assembleSeq_eq leftover reqs hcov

/-- on the symbolic pattern every request built from the DOF tables is covered, so the hypothesis of
`history_independent` holds for all assembly routes of C16 -/
theorem C16.history_independent_symbolic {α : Type} [Add α] [Mul α] [Zero α] (nT nS : Nat) (tm sm : List (List Nat)) (g : Graph)
    (hg : symbolicGraph2 nT nS tm sm = some g)
    (hT : ∀ l ∈ tm, ∀ r ∈ l, r < nT) (hS : ∀ l ∈ sm, ∀ s ∈ l, s < nS)
    (leftover : Array (Option Nat)) (reqs : List (List (CellCall α)))
    (hreqs : ∀ calls ∈ reqs, ∀ c ∈ calls, ∃ k, c.rowMap = tm.getD k [] ∧ c.colMap = sm.getD k []) :
    assembleSeq leftover (reqs.map fun calls => ⟨Pattern.ofGraph g, calls⟩) =
      reqs.map fun calls => (assemble (Pattern.ofGraph g) calls).map (·.data) := by
  rw [C16.history_independent, List.map_map]
  · rfl
  · intro r hr
    obtain ⟨calls, hc, rfl⟩ := List.mem_map.mp hr
    simp only [Request.covered, List.all_eq_true]
    exact fun c hcc => C16L.symbolic_covered nT nS tm sm g hg hT hS c (hreqs calls hc c hcc)

/-- stale scratch content from an earlier call (slot 1 points to position 0) does not change a covered assembly -/
example :
    assembleSeq (α := Int) #[some 7, some 0] [⟨⟨2, 2, [0, 1, 3], [0, 0, 1]⟩, [⟨1, [1], [1, 0], fun _ j => (j : Int) + 1⟩]⟩] =
      [some #[0, 2, 1]] := by decide

/-- **blocked_routes_agree** (BCSR system matrices: Du:Dv, Laplace/identity blocked, stress-divergence, Burgers): on the
symbolic pattern, any two orders of the same multiset of blocked cell contributions (classic cell loop, domain-assembler
job, any layering) both succeed and give, component by component of the `h × w` blocks, the same operator. -/
theorem C16.blocked_routes_agree {α : Type} [CommRing α] (nT nS : Nat) (tm sm : List (List Nat)) (g : Graph)
    (hg : symbolicGraph2 nT nS tm sm = some g)
    (hT : ∀ l ∈ tm, ∀ r ∈ l, r < nT) (hS : ∀ l ∈ sm, ∀ s ∈ l, s < nS)
    (n : Nat) (hn : 0 < n) (calls1 calls2 : List (CellCallB α)) (hperm : calls1.Perm calls2)
    (hlen : ∀ c ∈ calls1, ∀ i j, (c.loc i j).length = n)
    (hcalls : ∀ c ∈ calls1, ∃ k, c.rowMap = tm.getD k [] ∧ c.colMap = sm.getD k []) :
    ∃ st1 st2, assembleB (Pattern.ofGraph g) n calls1 = some st1 ∧ assembleB (Pattern.ofGraph g) n calls2 = some st2 ∧
      ∀ e, e < n → ∀ (x : Nat → α) (r : Nat),
        (Pattern.ofGraph g).apply (st1.data.map fun b => b.getD e 0) x r =
        (Pattern.ofGraph g).apply (st2.data.map fun b => b.getD e 0) x r := by
  have hlen2 : ∀ c ∈ calls2, ∀ i j, (c.loc i j).length = n := fun c hc => hlen c (hperm.mem_iff.mpr hc)
  have key : ∀ e, e < n → ∃ s1 s2,
      (assembleB (Pattern.ofGraph g) n calls1).map (fun st => st.data.map fun b => b.getD e 0) = some s1 ∧
      (assembleB (Pattern.ofGraph g) n calls2).map (fun st => st.data.map fun b => b.getD e 0) = some s2 ∧
      ∀ (x : Nat → α) (r : Nat), (Pattern.ofGraph g).apply s1 x r = (Pattern.ofGraph g).apply s2 x r := by
    intro e he
    obtain ⟨t1, t2, h1, h2, hsem⟩ := C16.routes_agree nT nS tm sm g hg hT hS
      (calls1.map fun c => c.comp e) (calls2.map fun c => c.comp e) (hperm.map _)
      (fun c hc => by
        obtain ⟨cb, hcb, rfl⟩ := List.mem_map.mp hc
        exact hcalls cb hcb)
    refine ⟨t1.data, t2.data, ?_, ?_, hsem⟩
    · rw [C16.block_route_agree (Pattern.ofGraph g) n e he calls1 hlen _ rfl, h1]; rfl
    · rw [C16.block_route_agree (Pattern.ofGraph g) n e he calls2 hlen2 _ rfl, h2]; rfl
  obtain ⟨s1, s2, k1, k2, _⟩ := key 0 hn
  cases hb1 : assembleB (Pattern.ofGraph g) n calls1 with
  | none => rw [hb1] at k1; cases k1
  | some st1 =>
    cases hb2 : assembleB (Pattern.ofGraph g) n calls2 with
    | none => rw [hb2] at k2; cases k2
    | some st2 =>
      refine ⟨st1, st2, rfl, rfl, fun e he x r => ?_⟩
      obtain ⟨u1, u2, j1, j2, hsem⟩ := key e he
      rw [hb1] at j1; rw [hb2] at j2
      simp only [Option.map_some, Option.some.injEq] at j1 j2
      rw [j1, j2]
      exact hsem x r

/-! ### the local integrals (goal: `FullStatement` on affine cells)

The exact integral of a polynomial over the reference cell is *defined* through C14's reference integrals of the
monomials (`Cub.refNum/refDen`), extended linearly, and over an affine cell by the constant factor `|det J|`
(change of variables); the identification with the Lebesgue integral is not formalised.
On non-affine (multilinear) quadrilaterals/hexahedra `det J` is a polynomial and `J⁻¹` a rational function of the
reference coordinates: the mass/force integrands stay polynomial (exact with a rule of degree `2k + d - 1`, observed by
the correspondence oracle), the Laplace-type integrands are rational and are **not** integrated exactly by any rule —
the statements below are for affine cells (simplices, parallelograms/parallelepipeds) only. -/

/-- **local_integral_exact**: the local entry as coded, `Σ_q F(x_q) · (|det J| · w_q)`, equals the exact integral
`|det J| · ∫_ref F` whenever the rule is exact on the monomials of the integrand `F` (linearity). -/
theorem C16.local_integral_exact (r : Rule) (simplex : Bool) (d : Nat) (ms : List FeatModel.Poly.Mono) (detJ : Rat)
    (F : FeatModel.Poly.Poly) (hex : r.exactOn simplex d ms = true) (hF : monosIn F ms = true) :
    localEntry r detJ F = cellInt simplex d detJ F :=
  C16L.local_exact r simplex d ms detJ F hex hF

/-- the exactness hypothesis is discharged for the rational rules of kernel/cubature (as filled at `Q`): Newton–Cotes
closed 2..5, Simpson, trapezoidal, barycentre on the line and the square (tensor products, per-variable degree), barycentre,
trapezoidal and Lauffer degree 2 on the triangle (total degree) — by kernel evaluation of the cubature sums -/
theorem C16.rules_exact : exactTableOK = true := by decide +kernel

/-- the identity and Laplace integrands of Lagrange-1/2 (C15's reference polynomials) on the line, square and triangle
consist of monomials of degree `≤ 2k` -/
theorem C16.integrands_polynomial : integrandsOK = true := by decide +kernel

/-- **full_statement_affine**: on a mesh of affine cells, with a rule that is exact on the monomials of all local
integrands, the assembly on the symbolic pattern (any cell order) succeeds and the assembled operator is
`Σ_cells α_c · P_cᵀ · (∫_K integrand_ij)_ij · P_c`: each coupling of global DOFs receives the sum over the cells of the
exact integrals of the products of its basis functions, i.e. the matrix of the bilinear form on the basis. -/
theorem C16.full_statement_affine (nT nS : Nat) (tm sm : List (List Nat)) (g : Graph)
    (hg : symbolicGraph2 nT nS tm sm = some g)
    (hT : ∀ l ∈ tm, ∀ r ∈ l, r < nT) (hS : ∀ l ∈ sm, ∀ s ∈ l, s < nS)
    (r : Rule) (simplex : Bool) (d : Nat) (ms : List FeatModel.Poly.Mono) (hex : r.exactOn simplex d ms = true)
    (cells : List CellData)
    (hcells : ∀ c ∈ cells, ∃ k, c.rowMap = tm.getD k [] ∧ c.colMap = sm.getD k [])
    (hF : ∀ c ∈ cells, ∀ i j, monosIn (c.F i j) ms = true) :
    ∃ st, assemble (Pattern.ofGraph g) (cells.map (CellData.asCoded r)) = some st ∧
      ∀ (x : Nat → Rat) (row : Nat), (Pattern.ofGraph g).apply st.data x row =
        (cells.map fun c => c.alpha * (c.exact simplex d).contrib x row).sum := by
  have heq : cells.map (CellData.asCoded r) = cells.map (CellData.exact simplex d) :=
    List.map_congr_left fun c hc => C16L.asCoded_eq_exact r simplex d ms c hex (hF c hc)
  rw [heq]
  obtain ⟨st, h, _, sem⟩ := C16.assembled_eq_sum nT nS tm sm g hg hT hS (cells.map (CellData.exact simplex d))
    (fun c hc => by
      obtain ⟨c', hc', rfl⟩ := List.mem_map.mp hc
      exact hcells c' hc')
  refine ⟨st, h, fun x row => ?_⟩
  rw [sem, List.map_map]
  rfl

/-! ### facet-to-cell reference map of the trace assembler (3-D) -/

/-- **trace_orientation_consistent**: for every local face of the hexahedron (6) and the tetrahedron (4) and every stored
vertex order of the facet (8 symmetries of the quadrilateral, 6 of the triangle), with the orientation code
`compare(stored facet row, local face)` the map `FaceRefTrafo ∘ CongruencyTrafo` the assembler applies to a facet
cubature point is (as a polynomial map) the parametrisation `s ↦ Σ_m N_m(s)·refVertex(r[m])` of the *stored* facet in
the cell's reference coordinates. Hence the mapped point lies on the right local face and, the physical point being
`Σ_m N_m(s)·vertex(r[m])` from either side, both adjacent cells evaluate at the same physical point. -/
theorem C16.trace_orientation_consistent :
    FeatModel.TraceOrient.consistentAll FeatModel.FE.Kind.H = true ∧
    FeatModel.TraceOrient.consistentAll FeatModel.FE.Kind.S = true := by decide +kernel

/-- pointwise form: equal normalised polynomial maps give equal points for every facet point `s` -/
theorem C16.trace_point_sound (a b : List FeatModel.Poly.Poly) (h : FeatModel.TraceOrient.polysEq a b = true)
    (s : List Rat) : a.map (FeatModel.Poly.evalAt s) = b.map (FeatModel.Poly.evalAt s) :=
  C16L.polysEq_sound a b h s

/-- **trace_inverse_code**: with the arguments of the comparison swapped (the code of the inverse symmetry) the point map
is still the right one exactly when the symmetry is self-inverse; the non-self-inverse codes are the rotations 1 and 2 of
the quadrilateral and of the triangle — for these the assembler would evaluate a *different* point. -/
theorem C16.trace_inverse_code :
    FeatModel.TraceOrient.inverseAll FeatModel.FE.Kind.H = true ∧
    FeatModel.TraceOrient.inverseAll FeatModel.FE.Kind.S = true ∧
    FeatModel.TraceOrient.rotationCodes FeatModel.FE.Kind.H = [1, 2] ∧
    FeatModel.TraceOrient.rotationCodes FeatModel.FE.Kind.S = [1, 2] := by decide +kernel

/-- witness: top face of the hexahedron stored with symmetry 1 (code 1): the right point and the point of the inverse
code 2 differ -/
example :
    FeatModel.TraceOrient.facetPoint FeatModel.FE.Kind.H 1 1 [1/3, 1/5] = some [-1/5, 1/3, 1] ∧
    FeatModel.TraceOrient.facetPoint FeatModel.FE.Kind.H 1 2 [1/3, 1/5] = some [1/5, -1/3, 1] := by decide +kernel

/-! ### beyond affine cells, blocked operators, facets -/

/-- **local_integral_exact_multilinear** (mass / force on multilinear quadrilaterals; `jac_det = |det J(x_q)|` handling): if the
Jacobian determinant polynomial `D` is non-negative in the cubature points (decidable, evaluated by the driver on every
`flocal` case) and the rule is exact on the monomials of `F·D`, the local entry as coded,
`Σ_q F(x_q)·|D(x_q)|·w_q`, is the exact integral `∫_ref F·D` (= `∫_K` of the physical integrand by the change of variables
with the *oriented* Jacobian). For a determinant that is non-positive in the points the same holds with `-D`
(`C16.local_integral_exact_negative`): the `abs` makes a negatively oriented cell integrate with `|det J|`. -/
theorem C16.local_integral_exact_multilinear (r : Rule) (simplex : Bool) (d : Nat) (ms : List FeatModel.Poly.Mono)
    (D F : FeatModel.Poly.Poly) (hdet : r.detNonneg D = true) (hex : r.exactOn simplex d ms = true)
    (hF : monosIn (FeatModel.Poly.mul F D) ms = true) :
    localEntryVar r D F = cellInt simplex d 1 (FeatModel.Poly.mul F D) := by
  rw [C16L.localEntryVar_nonneg r D F hdet]
  exact C16L.local_exact r simplex d ms 1 _ hex hF

theorem C16.local_integral_exact_negative (r : Rule) (simplex : Bool) (d : Nat) (ms : List FeatModel.Poly.Mono)
    (D F : FeatModel.Poly.Poly) (hdet : r.detNonpos D = true) (hex : r.exactOn simplex d ms = true)
    (hF : monosIn (FeatModel.Poly.mul F (FeatModel.Poly.smul (-1) D)) ms = true) :
    localEntryVar r D F = cellInt simplex d 1 (FeatModel.Poly.mul F (FeatModel.Poly.smul (-1) D)) := by
  rw [C16L.localEntryVar_nonpos r D F hdet]
  exact C16L.local_exact r simplex d ms 1 _ hex hF

/-- **trace_facet_integral_exact**: for every local face, every stored vertex order of the facet and its orientation
code, the facet local entry as coded by the trace assembler (cell-side integrand `P` evaluated in
`FaceRefTrafo(CongruencyTrafo(s_q))`, weight `|D_f(s_q)|·w_q`) is the exact integral over the facet's reference cell of
`(P ∘ parametrisation of the stored facet) · D_f` — i.e. the exact polygon integral for a planar facet in a coordinate
plane, whose `jac_det` is the polynomial `|D_f|` (a facet in a skew plane has `jac_det = ‖∂_1 × ∂_2‖`, a square root:
not covered). Combines `trace_orientation_consistent` with `local_integral_exact` on the facet reference cell. -/
theorem C16.trace_facet_integral_exact (r : Rule) (k : FeatModel.FE.Kind) (l : Nat) (π : List Nat) (c : Nat)
    (Df P : FeatModel.Poly.Poly) (hl : l < FeatModel.FE.numFaces k 3 2) (hπ : π ∈ FeatModel.TraceOrient.syms k)
    (hc : FeatModel.TraceOrient.orientCode k (FeatModel.FE.storedRow k 3 2 l π) (FeatModel.TraceOrient.canonFace k l) = some c)
    (hdet : r.detNonneg Df = true) (simplex : Bool) (ms : List FeatModel.Poly.Mono)
    (hex : r.exactOn simplex 2 ms = true)
    (hF : monosIn (FeatModel.Poly.mul (FeatModel.Poly.substL
      (FeatModel.TraceOrient.storedMap k (FeatModel.FE.storedRow k 3 2 l π)) P) Df) ms = true) :
    facetEntry r k l c Df P =
      some (cellInt simplex 2 1 (FeatModel.Poly.mul (FeatModel.Poly.substL
        (FeatModel.TraceOrient.storedMap k (FeatModel.FE.storedRow k 3 2 l π)) P) Df)) := by
  have hcons : FeatModel.TraceOrient.consistentAll k = true := by
    cases k
    · exact C16.trace_orientation_consistent.2
    · exact C16.trace_orientation_consistent.1
  exact C16L.facetEntry_exact r k l π c Df P hl hπ hcons hc hdet simplex ms hex hF

/-! ### per-cell operator hooks (user-defined operators with state in `prepare()` / `finish()`) -/

/-- **hooks_cellwise**: on every route the integrand of cell `T` is evaluated with the coefficient of cell `T`: the scatter
calls of the stateful hook loop (state overwritten by `prepare`, poisoned by `finish`) are the per-cell calls, for every
incoming evaluator state, every poison value and every sequence of cells. A route that calls `prepare` before the trafo
evaluator knows the cell (and so reads another cell's or no coefficient) disagrees with this model. -/
theorem C16.hooks_cellwise {α : Type} [Mul α] [OfNat α 1] (coef : Nat → α) (poison st : α) (cells : List (HookCell α)) :
    hookLoop coef poison st cells = cells.map (hookCall coef) := by
  induction cells generalizing st with
  | nil => rfl
  | cons c t ih => simp only [hookLoop, List.map_cons, hookCall, ih]

/-- **hooks_routes_agree**: with a per-cell coefficient, any two cell orders (classic loop, Job1, Job2, …) give the same
assembled operator, and it is `Σ_T c_T · P_Tᵀ base_T P_T` -/
theorem C16.hooks_routes_agree {α : Type} [CommRing α] (nT nS : Nat) (tm sm : List (List Nat)) (g : Graph)
    (hg : symbolicGraph2 nT nS tm sm = some g)
    (hT : ∀ l ∈ tm, ∀ r ∈ l, r < nT) (hS : ∀ l ∈ sm, ∀ s ∈ l, s < nS)
    (coef : Nat → α) (poison st1 st2 : α) (cells1 cells2 : List (HookCell α)) (hperm : cells1.Perm cells2)
    (hcells : ∀ c ∈ cells1, ∃ k, c.rowMap = tm.getD k [] ∧ c.colMap = sm.getD k []) :
    ∃ s1 s2, assemble (Pattern.ofGraph g) (hookLoop coef poison st1 cells1) = some s1 ∧
      assemble (Pattern.ofGraph g) (hookLoop coef poison st2 cells2) = some s2 ∧
      ∀ (x : Nat → α) (r : Nat), (Pattern.ofGraph g).apply s1.data x r = (Pattern.ofGraph g).apply s2.data x r ∧
        (Pattern.ofGraph g).apply s1.data x r = (cells1.map fun c => (1 : α) * (hookCall coef c).contrib x r).sum := by
  rw [C16.hooks_cellwise, C16.hooks_cellwise]
  have hc1 : ∀ c ∈ cells1.map (hookCall coef), ∃ k, c.rowMap = tm.getD k [] ∧ c.colMap = sm.getD k [] := by
    intro c hc
    obtain ⟨c', hc', rfl⟩ := List.mem_map.mp hc
    exact hcells c' hc'
  obtain ⟨s1, s2, h1, h2, hsem⟩ := C16.routes_agree nT nS tm sm g hg hT hS _ _ (hperm.map (hookCall coef)) hc1
  obtain ⟨s1', h1', _, sem1⟩ := C16.assembled_eq_sum nT nS tm sm g hg hT hS (cells1.map (hookCall coef)) hc1
  rw [h1] at h1'
  cases h1'
  refine ⟨s1, s2, h1, h2, fun x r => ⟨hsem x r, ?_⟩⟩
  rw [sem1, List.map_map]
  rfl
