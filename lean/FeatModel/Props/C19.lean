import FeatModel.Model.Adjacency
import FeatModel.Lemmas.C19_renders
/-! # C19 — property theorems (statements only; proofs live in Lemmas/C19_*.lean) -/
open FeatModel.Adj

theorem C19.render_asIs_spec (g : Graph) : g.render 0 = some g := rfl

theorem C19.injectify_spec (g : Graph) (i : Nat) :
    (g.injectify.row i).Nodup ∧ (∀ k, k ∈ g.injectify.row i ↔ k ∈ g.row i) ∧
    (g.injectify.row i).Sublist (g.row i) ∧ g.injectify.nImg = g.nImg ∧ g.injectify.nDom = g.nDom :=
  C19L.injectify_spec g i

theorem C19.transpose_spec (g : Graph) (i j : Nat) (hi : i < g.nImg) :
    (g.transpose.row i).count j = (g.row j).count i ∧ (g.transpose.row i).Pairwise (· ≤ ·) ∧
    g.transpose.nDom = g.nImg ∧ g.transpose.nImg = g.nDom :=
  C19L.transpose_spec g i j hi

theorem C19.injectifyTranspose_spec (g : Graph) (i j : Nat) (hi : i < g.nImg) :
    (j ∈ g.injectifyTranspose.row i ↔ i ∈ g.row j) ∧ (g.injectifyTranspose.row i).Pairwise (· < ·) ∧
    g.injectifyTranspose.nDom = g.nImg ∧ g.injectifyTranspose.nImg = g.nDom :=
  C19L.injectifyTranspose_spec g i j hi

theorem C19.compose_spec (a b : Graph) (i : Nat) :
    (Graph.compose a b).row i = (a.row i).flatMap b.row ∧
    (∀ k, k ∈ (Graph.compose a b).row i ↔ ∃ j, j ∈ a.row i ∧ k ∈ b.row j) :=
  C19L.compose_spec a b i

theorem C19.sortIndices_spec (g : Graph) (i : Nat) :
    (g.sortIndices.row i).Perm (g.row i) ∧ (g.sortIndices.row i).Pairwise (· ≤ ·) :=
  C19L.sortIndices_spec g i

theorem C19.arrays_faithful (g : Graph) (i : Nat) (hi : i < g.nDom) :
    g.domainPtr.length = g.nDom + 1 ∧
    g.row i = (g.imageIdx.drop (g.domainPtr.getD i 0)).take (g.domainPtr.getD (i+1) 0 - g.domainPtr.getD i 0) :=
  C19L.arrays_faithful g i hi
