import FeatModel.Model.Adjacency
/-! # C19 — property theorems (placeholder statement set; grows) -/
open FeatModel.Adj

theorem C19.render_asIs_spec (g : Graph) : (g.render 0) = some g := rfl
