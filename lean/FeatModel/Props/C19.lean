import FeatModel.Model.Adjacency
import FeatModel.Model.AdjKernels
import FeatModel.Lemmas.C19_api
import FeatModel.Lemmas.C19_blk
import FeatModel.Lemmas.C19_cm
import FeatModel.Lemmas.C19_cmexact
import FeatModel.Lemmas.C19_cmroot
import FeatModel.Lemmas.C19_cmuniq
import FeatModel.Lemmas.C19_colk
import FeatModel.Lemmas.C19_color
import FeatModel.Lemmas.C19_color2
import FeatModel.Lemmas.C19_csr
import FeatModel.Lemmas.C19_dyn
import FeatModel.Lemmas.C19_kernels
import FeatModel.Lemmas.C19_layers
import FeatModel.Lemmas.C19_mask
import FeatModel.Lemmas.C19_perms
import FeatModel.Lemmas.C19_perms2
import FeatModel.Lemmas.C19_perms3
import FeatModel.Lemmas.C19_renders
import FeatModel.Lemmas.C19_rowk
import FeatModel.Lemmas.C19_walk
import FeatModel.Lemmas.C19_wf
/-! # C19 — property theorems (statements only; proofs live in Lemmas/C19_*.lean)

Remaining hypotheses of the C19 theorems and why they stay (everything else was removed or turned into a conclusion):
* `g.wf = true` (all image indices < `nImg`): class invariant of `Adjacency::Graph`. It is ESTABLISHED by every operation
  of the model that produces a graph (`render_wf`, `renderComposite_wf`, `permuted_wf`, `permuteIndices_wf`,
  `partitionGraph_wf`, `dynGraph_wf`, `C19L.walk.compose_wf`), so it only has to hold for graphs that enter through the
  Copy-Array / Copy-Vector constructors, which copy what they get without any assertion: there it is a caller obligation
  (the kernels index `idx_mask[*it]`, `_domain_ptr[*it + 1]`, `image_ptr[*it]` with the indices; undefined behaviour
  otherwise). The driver EVALUATES `g.wf` on every input graph (an ill-formed one is rejected as `BAD-OP`), so every
  model output compared with the implementation is covered by the theorems. `permuteIndices_spec` needs no hypothesis.
* `g.nImg = g.nDom`: `Coloring(graph)` and `CuthillMcKee::compute` take a node-to-node graph (both index node arrays with
  image indices).
* `hsym` (`coloring_proper`, `coloringOrdered_proper`): coloring.hpp documents "adjacent nodes do not have the same color"
  for a *graph* in the undirected sense; both constructors only look at neighbours that are already coloured. What holds
  for ANY graph: `coloring_proper_scanned`, `coloringOrdered_proper_scanned` (a node differs from every out-neighbour
  coloured before it); `coloring_nonsymmetric_witness` shows symmetry cannot be dropped. The colour bounds
  (`coloring_bounds`, `coloringOrdered_bounds`) and contiguity need no hypothesis on the graph.
* `Perm.isBijection p` / swap-range hypotheses: class invariant of `Adjacency::Permutation`; constructors do not validate
  (`swapFromPerm_terminates`: termination is only guaranteed for bijections). `order` of `Coloring(graph, order)` is
  documented as a permutation array.
* `A.Lawful`, `A.toGraph.wf`: hold for every adjactor the driver builds (`adjactor_ofGraph_spec`,
  `adjactor_composite_spec`, `C19L.walk.compose_wf`).
* Permutation constructor types: identity `identity_ctor_spec`, perm `swap_perm_agree` + `swapFromPerm_terminates`, swap
  `swap_ctor_spec`, inv_perm `invPerm_ctor_spec` + `invPerm_spec`, inv_swap `invSwap_ctor_is_inverse` (inverse of the swap
  constructor for EVERY swap array), random `random_ctor_bijection`; `none` leaves both arrays uninitialised (nothing to state).
* `hn : 0 < g.nDom` (Cuthill-McKee): `cm_empty_aborts` shows the other case aborts (`Permutation(0)`); logically implied by
  `compute = some _` where that is a hypothesis.
* sortedness of `DynGraph` rows: `std::set` invariant, established by `empty` and preserved by every operation
  (`dyn_insert_spec`, `dyn_erase_spec`, `dyn_ofAdjactor*_spec`, `dyn_compose_spec`).
* index-range hypotheses (`i < g.nImg`, `i < g.nDom`, `hj : j < col.length`, `h : c ∈ col → c < nc`): the quantifier
  range of the statement (rows that exist / colours that are below `num_colors`).
* MODELLING ASSUMPTION: `Index` and the element type of the duplicate mask (`std::vector<char>`) are modelled unbounded
  (Nat / Bool). The kernels are proved for every mask element type with two distinct values (`walkM_spec`,
  `walk_is_walkM`); `walkTag_narrow_fails` shows what a `w`-bit tag compared against a full-width index does from node
  `2^w - 1` on. C++ narrowing is invisible to the model, so the correspondence stream `large` crosses the
  2^7 / 2^8 (quick) and 2^15 / 2^16 (thorough) node-count boundaries with duplicates in the last rows.
* `compositeIterator_spec` / `_empty_head` describe the pre-1c006df21 begin constructor; the current one is
  `compositeIterator_fixed_spec` (no hypothesis).
Per theorem (hypothesis binders as written below):
* `injectify_spec`: none
* `transpose_spec`: hi
* `injectifyTranspose_spec`: hi
* `compose_spec`: none
* `sortIndices_spec`: none
* `arrays_faithful`: hi
* `swapFromPerm_terminates`: h
* `swap_perm_agree`: h, hs, hx
* `inverse_swaps_undo`: none
* `applyPermInv_undoes`: h, hx
* `invPerm_spec`: h
* `concat_composes`: h1, h2, hl, hx
* `permFromSwap_bijection`: hs
* `coloring_proper`: hsq, hwf, hsym
* `coloring_bounds`: none
* `coloringOrdered_proper`: hsq, hwf, hord, hlen, hsym
* `partitionGraph_spec`: h, hj
* `cm_bijection`: hsq, hwf, hn
* `adjactor_ofGraph_spec`: none
* `adjactor_composite_spec`: none
* `walk_spec`: hA, hm, hr
* `renderRows_spec`: hA, hwf
* `renderCols_spec`: hA, hwf
* `sortSegments_spec`: none
* `kernel_render_eq`: hwf
* `kernel_render2_eq`: hb
* `degree_spec`: none
* `permuteIndices_spec`: none
* `permuteIndices_relabels`: hwf, hne, hp
* `clone_spec`: none
* `numDistinct_spec`: hd, hm
* `greedy_colors_contiguous`: none
* `dyn_insert_spec`: hs, hi
* `dyn_erase_spec`: hs, hi
* `dyn_ofAdjactor_spec`: hA
* `dyn_ofAdjactor_transpose_spec`: hA, hwf
* `dyn_render_spec`: hs
* `dyn_compose_spec`: h
* `compositeIterator_spec`: h
* `compositeIterator_fixed_spec`: none
* `degree_is_max`: none
* `compositeIterator_empty_head`: h, he
* `cm_layers_are_bfs_levels`: hsq, hwf, hn, h
* `inverse_inverse`: h
* `concat_inverse`: h
* `self_concat`: h, hx
* `self_concat_aliased`: h, hx
* `random_ctor_bijection`: hs, hl
* `graph_permuted_spec`: hlen, hi
* `graph_csr_permute_consistent`: hi, hp, hpr
* `coloring_proper_scanned`: none
* `coloring_nonsymmetric_witness`: none
* `coloringOrdered_bounds`: hord, hlen
* `coloringOrdered_proper_scanned`: hord, hlen
* `coloringOrdered_colors_contiguous`: hord, hlen
* `partition_transpose_roundtrip`: h
* `findRoot_spec`: hm
* `sortLevel_stable`: none
* `cm_empty_aborts`: h
* `cm_ordering_spec`: hsq, hwf, hn, h
* `cm_reverse_exact`: hsq, hwf, hn, h
* `blocked_apply_spec`: h, hs
* `indexSetPermute_is_graph_permuted`: none
* `walkM_spec`: hne, hA, hm, hr
* `walk_is_walkM`: none
* `walkTag_narrow_fails`: h, hv, hm
* `walkTag_wide_ok`: hA, hw, hm, hr
* `identity_ctor_spec`: hx
* `swap_ctor_spec`: hs, hx
* `invSwap_ctor_is_inverse`: hs
* `invPerm_ctor_spec`: h
* `render_wf`: hwf, h
* `renderComposite_wf`: hb, h
* `permuted_wf`: hwf, hip
* `permuteIndices_wf`: hwf, hp
* `partitionGraph_wf`: none
* `dynGraph_wf`: hA, hwf
* `cm_root_unique`: h1, h2
* `cm_chain_unique`: h1, h2
* `cm_components_unique`: h1, h2, hl
* `cm_ordering_unique`: h1, h2
-/
open FeatModel.Adj

theorem C19.render_asIs_spec (g : Graph) : g.render 0 = some g := rfl

theorem C19.injectify_spec (g : Graph) (i : Nat) :
    (g.injectify.row i).Nodup ∧ (∀ k, k ∈ g.injectify.row i ↔ k ∈ g.row i) ∧
    (g.injectify.row i).Sublist (g.row i) ∧ g.injectify.nImg = g.nImg ∧ g.injectify.nDom = g.nDom :=
  C19L.renders.injectify_spec g i

theorem C19.transpose_spec (g : Graph) (i j : Nat) (hi : i < g.nImg) :
    (g.transpose.row i).count j = (g.row j).count i ∧ (g.transpose.row i).Pairwise (· ≤ ·) ∧
    g.transpose.nDom = g.nImg ∧ g.transpose.nImg = g.nDom :=
  C19L.renders.transpose_spec g i j hi

theorem C19.injectifyTranspose_spec (g : Graph) (i j : Nat) (hi : i < g.nImg) :
    (j ∈ g.injectifyTranspose.row i ↔ i ∈ g.row j) ∧ (g.injectifyTranspose.row i).Pairwise (· < ·) ∧
    g.injectifyTranspose.nDom = g.nImg ∧ g.injectifyTranspose.nImg = g.nDom :=
  C19L.renders.injectifyTranspose_spec g i j hi

theorem C19.compose_spec (a b : Graph) (i : Nat) :
    (Graph.compose a b).row i = (a.row i).flatMap b.row ∧
    (∀ k, k ∈ (Graph.compose a b).row i ↔ ∃ j, j ∈ a.row i ∧ k ∈ b.row j) :=
  C19L.renders.compose_spec a b i

theorem C19.sortIndices_spec (g : Graph) (i : Nat) :
    (g.sortIndices.row i).Perm (g.row i) ∧ (g.sortIndices.row i).Pairwise (· ≤ ·) :=
  C19L.renders.sortIndices_spec g i

theorem C19.arrays_faithful (g : Graph) (i : Nat) (hi : i < g.nDom) :
    g.domainPtr.length = g.nDom + 1 ∧
    g.row i = (g.imageIdx.drop (g.domainPtr.getD i 0)).take (g.domainPtr.getD (i+1) 0 - g.domainPtr.getD i 0) :=
  C19L.renders.arrays_faithful g i hi

theorem C19.swapFromPerm_terminates (p : List Nat) (h : Perm.isBijection p = true) :
    ∃ s, Perm.swapFromPerm p = some s ∧ s.length = p.length ∧
      ∀ i, i < p.length → i ≤ s.getD i 0 ∧ s.getD i 0 < p.length :=
  C19L.perms.swapFromPerm_terminates p h

theorem C19.swap_perm_agree {α : Type} [Inhabited α] (p s : List Nat) (h : Perm.isBijection p = true)
    (hs : Perm.swapFromPerm p = some s) (x : Array α) (hx : x.size = p.length) :
    (Perm.applySwaps s x).toList = Perm.applyPerm p x.toList :=
  C19L.perms.swap_perm_agree p s h hs x hx

theorem C19.inverse_swaps_undo {α : Type} (s : List Nat) (x : Array α) :
    Perm.applySwapsInv s (Perm.applySwaps s x) = x ∧ Perm.applySwaps s (Perm.applySwapsInv s x) = x :=
  C19L.perms.inverse_swaps_undo s x

theorem C19.applyPermInv_undoes {α : Type} [Inhabited α] (p : List Nat) (h : Perm.isBijection p = true)
    (x : List α) (hx : x.length = p.length) :
    Perm.applyPermInv p (Perm.applyPerm p x) = x ∧ Perm.applyPerm p (Perm.applyPermInv p x) = x :=
  C19L.perms.applyPermInv_undoes p h x hx

theorem C19.invPerm_spec (p : List Nat) (h : Perm.isBijection p = true) :
    Perm.isBijection (Perm.invPerm p) = true ∧
    (∀ i, i < p.length → (Perm.invPerm p).getD (p.getD i 0) 0 = i) ∧
    (∀ k, k < p.length → p.getD ((Perm.invPerm p).getD k 0) 0 = k) :=
  C19L.perms.invPerm_spec p h

theorem C19.concat_composes {α : Type} [Inhabited α] (p1 p2 : List Nat) (x : List α)
    (h1 : Perm.isBijection p1 = true) (h2 : Perm.isBijection p2 = true) (hl : p1.length = p2.length)
    (hx : x.length = p1.length) :
    Perm.isBijection (p1.map fun k => p2.getD k 0) = true ∧
    Perm.applyPerm (p1.map fun k => p2.getD k 0) x = Perm.applyPerm p1 (Perm.applyPerm p2 x) :=
  C19L.perms.concat_composes p1 p2 x h1 h2 hl hx

theorem C19.permFromSwap_bijection (s : List Nat)
    (hs : ∀ i, i < s.length → i ≤ s.getD i 0 ∧ s.getD i 0 < s.length) :
    Perm.isBijection (Perm.permFromSwap s) = true :=
  C19L.perms.permFromSwap_bijection s hs

theorem C19.coloring_proper (g : Graph) (hsq : g.nImg = g.nDom) (hwf : g.wf = true)
    (hsym : ∀ i j, j ∈ g.row i → i ∈ g.row j) :
    ∀ i j, i < g.nDom → j ∈ g.row i → j ≠ i →
      (Coloring.greedy g).coloring.getD i 0 ≠ (Coloring.greedy g).coloring.getD j 0 :=
  C19L.color.coloring_proper g hsq hwf hsym

theorem C19.coloring_bounds (g : Graph) :
    (Coloring.greedy g).numColors ≤ g.maxDegree + 1 ∧
    ∀ i, i < g.nDom → (Coloring.greedy g).coloring.getD i 0 < (Coloring.greedy g).numColors :=
  C19L.color.coloring_bounds_free g

theorem C19.coloringOrdered_proper (g : Graph) (order : List Nat) (hsq : g.nImg = g.nDom) (hwf : g.wf = true)
    (hord : Perm.isBijection order = true) (hlen : order.length = g.nDom)
    (hsym : ∀ i j, j ∈ g.row i → i ∈ g.row j) :
    ∀ i j, i < g.nDom → j ∈ g.row i → j ≠ i →
      (Coloring.greedyOrdered g order).coloring.getD i 0 ≠ (Coloring.greedyOrdered g order).coloring.getD j 0 :=
  C19L.color.coloringOrdered_proper g order hsq hwf hord hlen hsym

theorem C19.partitionGraph_spec (nc : Nat) (col : List Nat) (h : ∀ c, c ∈ col → c < nc) (j : Nat) (hj : j < col.length) :
    (∀ c, j ∈ (Coloring.partitionGraph nc col).row c ↔ col.getD j 0 = c) ∧
    (∀ c, ((Coloring.partitionGraph nc col).row c).count j ≤ 1) :=
  C19L.color.partitionGraph_spec nc col h j hj

theorem C19.cm_bijection (g : Graph) (hsq : g.nImg = g.nDom) (hwf : g.wf = true) (hn : 0 < g.nDom)
    (rev : Bool) (rt : CM.RootType) (st : CM.SortType) :
    ∃ perm layers, CM.compute g rev rt st = some (perm, layers) ∧ perm.length = g.nDom ∧
      Perm.isBijection perm = true :=
  C19L.cm.cm_bijection g hsq hwf hn rev rt st

theorem C19.adjactor_ofGraph_spec (g : Graph) :
    (Adjactor.ofGraph g).Lawful ∧ (Adjactor.ofGraph g).toGraph = g ∧ ∀ i, (Adjactor.ofGraph g).images i = g.row i :=
  C19L.walk.adjactor_ofGraph_spec g

theorem C19.adjactor_composite_spec (a b : Graph) :
    (Adjactor.composite a b).Lawful ∧ (Adjactor.composite a b).toGraph = Graph.compose a b ∧
    ∀ i, (Adjactor.composite a b).images i = (a.row i).flatMap b.row :=
  C19L.walk.adjactor_composite_spec a b

theorem C19.walk_spec {σ : Type} (A : Adjactor) (hA : A.Lawful) (inj : Bool) (i : Nat) (f : σ → Nat → σ) (s : σ)
    (m : Kern.Mask) (hm : ∀ k, m.getD k false = false) (hr : ∀ v, v ∈ A.images i → v < m.size) :
    Kern.walk A inj i f (s, m) = ((if inj then Graph.dedup (A.images i) else A.images i).foldl f s, m) :=
  C19L.walk.walk_spec A hA inj i f s m hm hr

theorem C19.renderRows_spec (A : Adjactor) (hA : A.Lawful) (hwf : A.toGraph.wf = true) (inj : Bool) :
    Kern.renderRows A inj = Arrays.ofGraph (if inj then A.toGraph.injectify else A.toGraph) :=
  C19L.rowk.renderRows_spec A hA hwf inj

theorem C19.renderCols_spec (A : Adjactor) (hA : A.Lawful) (hwf : A.toGraph.wf = true) (inj : Bool) :
    Kern.renderCols A inj = Arrays.ofGraph (if inj then A.toGraph.injectifyTranspose else A.toGraph.transpose) :=
  C19L.colk.renderCols_spec A hA hwf inj

theorem C19.sortSegments_spec (g : Graph) :
    Kern.sortSegments (Arrays.ofGraph g) = some (Arrays.ofGraph g.sortIndices) :=
  C19L.rowk.sortSegments_spec g

theorem C19.kernel_render_eq (rt : Nat) (g : Graph) (hwf : g.wf = true) :
    Kern.render rt (Adjactor.ofGraph g) = (g.render rt).map Arrays.ofGraph :=
  C19L.kernels.kernel_render_eq rt g hwf

theorem C19.kernel_render2_eq (rt : Nat) (a b : Graph) (hb : b.wf = true) :
    Kern.render2 rt a b = (Graph.renderComposite rt a b).map Arrays.ofGraph :=
  C19L.kernels.kernel_render2_eq rt a b hb

theorem C19.degree_spec (g : Graph) :
    Kern.degreeAll (Arrays.ofGraph g) = g.maxDegree ∧
    (∀ i, i < g.nDom → Kern.degreeAt (Arrays.ofGraph g) i = (g.row i).length) ∧
    (∀ i, (g.row i).length ≤ g.maxDegree) ∧
    (0 < g.nDom → ∃ i, i < g.nDom ∧ (g.row i).length = g.maxDegree) :=
  C19L.api.degree_spec g

theorem C19.permuteIndices_spec (g : Graph) (p : List Nat) :
    Kern.permuteIndices (Arrays.ofGraph g) p =
      if g.imageIdx = [] ∨ g.nImg ≠ p.length ∨ ¬ (∀ k, k ∈ g.imageIdx → k < p.length) then none
      else some (Arrays.ofGraph { g with adj := g.adj.map fun l => l.map fun k => p.getD k 0 }) :=
  C19L.api.permuteIndices_spec g p

theorem C19.permuteIndices_relabels (g : Graph) (p : List Nat) (hwf : g.wf = true) (hne : g.imageIdx ≠ [])
    (hp : p.length = g.nImg) :
    ∃ g' : Graph, Kern.permuteIndices (Arrays.ofGraph g) p = some (Arrays.ofGraph g') ∧
      g'.nImg = g.nImg ∧ g'.nDom = g.nDom ∧ ∀ i, g'.row i = (g.row i).map fun k => p.getD k 0 :=
  C19L.api.permuteIndices_relabels g p hwf hne hp

theorem C19.clone_spec (g : Graph) : Kern.clone (Arrays.ofGraph g) = Arrays.ofGraph g :=
  C19L.api.clone_spec g

theorem C19.numDistinct_spec (col d : List Nat) (hd : d.Nodup) (hm : ∀ c, c ∈ d ↔ c ∈ col) :
    Coloring.numDistinct col = d.length :=
  C19L.api.numDistinct_spec col d hd hm

theorem C19.greedy_colors_contiguous (g : Graph) :
    Coloring.numDistinct (Coloring.greedy g).coloring.toList = (Coloring.greedy g).numColors :=
  C19L.api.greedy_colors_contiguous g

theorem C19.dyn_insert_spec (g : DynGraph) (hs : ∀ l, l ∈ g.rows → l.Pairwise (· < ·)) (i j : Nat) (hi : i < g.nDom) :
    (∀ l, l ∈ (g.insert i j).1.rows → l.Pairwise (· < ·)) ∧ (g.insert i j).2 = !(g.exists i j) ∧
    (∀ i' k, (g.insert i j).1.exists i' k = (g.exists i' k || (i' == i && k == j))) ∧
    (g.insert i j).1.nDom = g.nDom ∧ (g.insert i j).1.nImg = g.nImg :=
  C19L.dyn.dyn_insert_spec g hs i j hi

theorem C19.dyn_erase_spec (g : DynGraph) (hs : ∀ l, l ∈ g.rows → l.Pairwise (· < ·)) (i j : Nat) (hi : i < g.nDom) :
    (∀ l, l ∈ (g.erase i j).1.rows → l.Pairwise (· < ·)) ∧ (g.erase i j).2 = g.exists i j ∧
    (∀ i' k, (g.erase i j).1.exists i' k = (g.exists i' k && !(i' == i && k == j))) ∧
    (g.erase i j).1.nDom = g.nDom ∧ (g.erase i j).1.nImg = g.nImg :=
  C19L.dyn.dyn_erase_spec g hs i j hi

theorem C19.dyn_ofAdjactor_spec (A : Adjactor) (hA : A.Lawful) :
    (∀ l, l ∈ (DynGraph.ofAdjactor A false).rows → l.Pairwise (· < ·)) ∧
    (DynGraph.ofAdjactor A false).nDom = A.nDom ∧ (DynGraph.ofAdjactor A false).nImg = A.nImg ∧
    ∀ i k, i < A.nDom → (DynGraph.ofAdjactor A false).exists i k = (A.images i).contains k :=
  C19L.dyn.dyn_ofAdjactor_spec A hA

theorem C19.dyn_ofAdjactor_transpose_spec (A : Adjactor) (hA : A.Lawful) (hwf : A.toGraph.wf = true) :
    (∀ l, l ∈ (DynGraph.ofAdjactor A true).rows → l.Pairwise (· < ·)) ∧
    (DynGraph.ofAdjactor A true).nDom = A.nImg ∧ (DynGraph.ofAdjactor A true).nImg = A.nDom ∧
    ∀ i k, i < A.nDom → k < A.nImg → (DynGraph.ofAdjactor A true).exists k i = (A.images i).contains k :=
  C19L.dyn.dyn_ofAdjactor_transpose_spec A hA hwf

theorem C19.dyn_render_spec (g : DynGraph) (hs : ∀ l, l ∈ g.rows → l.Pairwise (· < ·)) :
    g.toGraph.injectify = g.toGraph ∧ g.toGraph.sortIndices = g.toGraph :=
  C19L.dyn.dyn_render_spec g hs

theorem C19.dyn_compose_spec (g : DynGraph) (b : Graph) (r : DynGraph) (h : g.compose b = some r) :
    (∀ l, l ∈ r.rows → l.Pairwise (· < ·)) ∧ r.nDom = g.nDom ∧ r.nImg = b.nImg ∧
    ∀ i k, r.exists i k = ((g.row i).flatMap b.row).contains k :=
  C19L.dyn.dyn_compose_spec g b r h

theorem C19.compositeIterator_spec (a b : Graph) (i : Nat) (h : ∀ j r, a.row i = j :: r → b.row j ≠ []) :
    CompIt.imagesOf a b i = some ((a.row i).flatMap b.row) :=
  C19L.api.compositeIterator_spec a b i h

theorem C19.compositeIterator_fixed_spec (a b : Graph) (i : Nat) :
    CompIt.imagesOfFixed a b i = some ((a.row i).flatMap b.row) ∧
    ((∀ j r, a.row i = j :: r → b.row j ≠ []) → CompIt.beginFixed a b i = CompIt.begin a b i) :=
  C19L.api.compositeIterator_fixed_spec a b i

theorem C19.degree_is_max (a : Arrays) :
    Kern.degreeAll a = (List.range (a.ptr.size - 1)).foldl (fun d i => max d (Kern.degreeAt a i)) 0 ∧
    (∀ i, i < a.ptr.size - 1 → Kern.degreeAt a i ≤ Kern.degreeAll a) ∧
    (0 < a.ptr.size - 1 → ∃ i, i < a.ptr.size - 1 ∧ Kern.degreeAt a i = Kern.degreeAll a) :=
  C19L.api.degree_is_max a

theorem C19.compositeIterator_empty_head (a b : Graph) (i j : Nat) (r : List Nat) (h : a.row i = j :: r)
    (he : b.row j = []) : CompIt.imagesOf a b i = none :=
  C19L.api.compositeIterator_empty_head a b i j r h he

theorem C19.cm_layers_are_bfs_levels (g : Graph) (hsq : g.nImg = g.nDom) (hwf : g.wf = true) (hn : 0 < g.nDom)
    (rev : Bool) (rt : CM.RootType) (st : CM.SortType) (perm layers : List Nat)
    (h : CM.compute g rev rt st = some (perm, layers)) :
    CM.LayersAreBfsLevels g rev perm layers :=
  C19L.layers.cm_layers_are_bfs_levels g hsq hwf hn rev rt st perm layers h

theorem C19.inverse_inverse (p : List Nat) (h : Perm.isBijection p = true) :
    Perm.invPerm (Perm.invPerm p) = p :=
  C19L.perms2.inverse_inverse p h

theorem C19.concat_inverse (p : List Nat) (h : Perm.isBijection p = true) :
    (p.map fun k => (Perm.invPerm p).getD k 0) = List.range p.length ∧
    ((Perm.invPerm p).map fun k => p.getD k 0) = List.range p.length :=
  C19L.perms2.concat_inverse p h

theorem C19.self_concat {α : Type} [Inhabited α] (p : List Nat) (x : List α) (h : Perm.isBijection p = true)
    (hx : x.length = p.length) :
    Perm.isBijection (p.map fun k => p.getD k 0) = true ∧
    Perm.applyPerm (p.map fun k => p.getD k 0) x = Perm.applyPerm p (Perm.applyPerm p x) :=
  C19L.perms2.self_concat p x h hx

theorem C19.self_concat_aliased {α : Type} [Inhabited α] (p : List Nat) (x : List α) (h : Perm.isBijection p = true)
    (hx : x.length = p.length) :
    Perm.concatAliased p = (p.map fun k => p.getD k 0) ∧
    Perm.isBijection (Perm.concatAliased p) = true ∧
    Perm.applyPerm (Perm.concatAliased p) x = Perm.applyPerm p (Perm.applyPerm p x) ∧
    Perm.applyPermInv (Perm.concatAliased p) (Perm.applyPerm (Perm.concatAliased p) x) = x :=
  C19L.perms2.self_concat_aliased p x h hx

theorem C19.random_ctor_bijection (s : List Nat)
    (hs : ∀ i, i + 1 < s.length → i ≤ s.getD i 0 ∧ s.getD i 0 < s.length) (hl : s.getD (s.length - 1) 0 = s.length - 1) :
    Perm.isBijection (Perm.permFromSwap s) = true :=
  C19L.perms2.random_ctor_bijection s hs hl

theorem C19.graph_permuted_spec (g : Graph) (dp ip : List Nat) (hlen : dp.length = g.nDom) (i : Nat) (hi : i < g.nDom) :
    (g.permuted dp ip).nDom = g.nDom ∧ (g.permuted dp ip).nImg = g.nImg ∧
    (g.permuted dp ip).row i = (g.row (dp.getD i 0)).map fun k => ip.getD k 0 :=
  C19L.perms2.graph_permuted_spec g dp ip hlen i hi

theorem C19.graph_csr_permute_consistent {α : Type} [Zero α] (A : FeatModel.LA.Csr α) (p qinv : Array Nat) (i : Nat)
    (hi : i < A.rows) (hp : p.size = A.rows) (hpr : ∀ k, k < p.size → p.getD k 0 < A.rows) :
    (A.permRow p qinv i).map (·.1) =
      (((C19L.csr.patternOf A).permuted p.toList qinv.toList).sortIndices).row i :=
  C19L.csr.graph_csr_permute_consistent A p qinv i hi hp hpr

theorem C19.coloring_proper_scanned (g : Graph) :
    ∀ i j, i < g.nDom → j ∈ g.row i → j < i →
      (Coloring.greedy g).coloring.getD i 0 ≠ (Coloring.greedy g).coloring.getD j 0 :=
  C19L.color.coloring_proper_scanned g

theorem C19.coloring_nonsymmetric_witness :
    ∃ g : Graph, g.nImg = g.nDom ∧ g.wf = true ∧ ∃ i j, i < g.nDom ∧ j ∈ g.row i ∧ j ≠ i ∧
      (Coloring.greedy g).coloring.getD i 0 = (Coloring.greedy g).coloring.getD j 0 :=
  C19L.color.coloring_nonsymmetric_witness 

theorem C19.coloringOrdered_bounds (g : Graph) (order : List Nat) (hord : Perm.isBijection order = true)
    (hlen : order.length = g.nDom) :
    (Coloring.greedyOrdered g order).numColors ≤ g.maxDegree + 1 ∧
    ∀ i, i < g.nDom → (Coloring.greedyOrdered g order).coloring.getD i 0 < (Coloring.greedyOrdered g order).numColors :=
  C19L.color2.coloringOrdered_bounds g order hord hlen

theorem C19.coloringOrdered_proper_scanned (g : Graph) (order : List Nat) (hord : Perm.isBijection order = true)
    (hlen : order.length = g.nDom) :
    ∀ a b, a < order.length → b < a → order.getD b 0 ∈ g.row (order.getD a 0) →
      (Coloring.greedyOrdered g order).coloring.getD (order.getD a 0) 0 ≠
      (Coloring.greedyOrdered g order).coloring.getD (order.getD b 0) 0 :=
  C19L.color2.coloringOrdered_proper_scanned g order hord hlen

theorem C19.coloringOrdered_colors_contiguous (g : Graph) (order : List Nat) (hord : Perm.isBijection order = true)
    (hlen : order.length = g.nDom) :
    Coloring.numDistinct (Coloring.greedyOrdered g order).coloring.toList = (Coloring.greedyOrdered g order).numColors :=
  C19L.color2.coloringOrdered_colors_contiguous g order hord hlen

theorem C19.partition_transpose_roundtrip (nc : Nat) (col : List Nat) (h : ∀ c, c ∈ col → c < nc) :
    (Coloring.partitionGraph nc col).transpose.adj = col.map (fun c => [c]) ∧
    (Coloring.partitionGraph nc col).transpose.nImg = nc :=
  C19L.color2.partition_transpose_roundtrip nc col h

theorem C19.findRoot_spec (g : Graph) (rt : CM.RootType) (mask : Array Bool) (seen : List Nat)
    (hm : ∀ j, j < g.nDom → (CM.isMasked mask j = true ↔ j ∈ seen)) :
    (∀ root, CM.findRoot g rt mask = some root → CM.IsDocumentedRoot g rt seen root) ∧
    (CM.findRoot g rt mask = none → ∀ j, j < g.nDom → j ∈ seen) :=
  C19L.cmroot.findRoot_spec g rt mask seen hm

theorem C19.sortLevel_stable (g : Graph) (st : CM.SortType) (lvl : List Nat) :
    (CM.sortLevel g st lvl).Perm lvl ∧
    (CM.sortLevel g st lvl).Pairwise (fun a b => match st with
      | .standard => True | .asc => g.degree a ≤ g.degree b | .desc => g.degree b ≤ g.degree a) ∧
    (∀ d, (CM.sortLevel g st lvl).filter (fun k => g.degree k == d) = lvl.filter (fun k => g.degree k == d)) ∧
    (st = .standard → CM.sortLevel g st lvl = lvl) :=
  C19L.cmroot.sortLevel_stable g st lvl

theorem C19.cm_empty_aborts (g : Graph) (h : g.nDom = 0) (rev : Bool) (rt : CM.RootType) (st : CM.SortType) :
    CM.compute g rev rt st = none :=
  C19L.cmroot.cm_empty_aborts g h rev rt st

theorem C19.cm_ordering_spec (g : Graph) (hsq : g.nImg = g.nDom) (hwf : g.wf = true) (hn : 0 < g.nDom)
    (rev : Bool) (rt : CM.RootType) (st : CM.SortType) (perm layers : List Nat)
    (h : CM.compute g rev rt st = some (perm, layers)) :
    CM.IsCmOrdering g rev rt st perm layers :=
  C19L.cmexact.cm_ordering_spec g hsq hwf hn rev rt st perm layers h

theorem C19.cm_reverse_exact (g : Graph) (hsq : g.nImg = g.nDom) (hwf : g.wf = true) (hn : 0 < g.nDom)
    (rt : CM.RootType) (st : CM.SortType) (pf lf : List Nat)
    (h : CM.compute g false rt st = some (pf, lf)) :
    ∃ comps : List (List (List Nat)), CM.AreCmComponents g rt st [] comps ∧
      pf = comps.flatMap (fun c => c.flatten) ∧
      lf = 0 :: CM.offsets 0 (comps.flatMap fun c => c.map List.length) ++ [g.nDom] ∧
      CM.compute g true rt st = some (comps.flatMap (fun c => c.flatten.reverse),
        0 :: CM.offsets 0 (comps.flatMap fun c => c.reverse.map List.length) ++ [g.nDom]) :=
  C19L.cmexact.cm_reverse_exact g hsq hwf hn rt st pf lf h

theorem C19.blocked_apply_spec (p s : List Nat) (h : Perm.isBijection p = true) (hs : Perm.swapFromPerm p = some s)
    (bs : Nat) (x : List Nat) :
    (Perm.applySwaps s (Perm.chunk bs p.length x).toArray).toList = Perm.applyPerm p (Perm.chunk bs p.length x) ∧
    Perm.applySwapsInv s (Perm.applySwaps s (Perm.chunk bs p.length x).toArray) = (Perm.chunk bs p.length x).toArray ∧
    (Perm.chunk bs p.length x).length = p.length :=
  C19L.blk.blocked_apply_spec p s h hs bs x

theorem C19.indexSetPermute_is_graph_permuted (p q : List Nat) (tuples : List (List Nat)) (nImg : Nat) :
    Perm.indexSetPermute p q tuples = (Graph.permuted ⟨nImg, tuples⟩ p q).adj :=
  C19L.blk.indexSetPermute_is_graph_permuted p q tuples nImg

theorem C19.walkM_spec {σ μ : Type} [DecidableEq μ] (off on : μ) (hne : off ≠ on) (A : Adjactor) (hA : A.Lawful)
    (i : Nat) (f : σ → Nat → σ) (s : σ) (m : Array μ) (hm : ∀ k, m.getD k off = off)
    (hr : ∀ v, v ∈ A.images i → v < m.size) :
    Kern.walkM off on A i f (s, m) = ((Graph.dedup (A.images i)).foldl f s, m) :=
  C19L.mask.walkM_spec off on hne A hA i f s m hm hr

theorem C19.walk_is_walkM {σ : Type} (A : Adjactor) (i : Nat) (f : σ → Nat → σ) (st : σ × Kern.Mask) :
    Kern.walk A true i f st = Kern.walkM false true A i f st :=
  C19L.mask.walk_is_walkM A i f st

theorem C19.walkTag_narrow_fails (w i v : Nat) (h : 2 ^ w ≤ i + 1) (m : Array Nat) (hv : v < m.size)
    (hm : m.getD v 0 ≠ i + 1) :
    (Kern.walkTag w (Adjactor.ofGraph ⟨m.size, List.replicate i [] ++ [[v, v]]⟩) i
      (fun (l : List Nat) k => l ++ [k]) ([], m)).1 = [v, v] ∧
    Graph.dedup [v, v] = [v] :=
  C19L.mask.walkTag_narrow_fails w i v h m hv hm

theorem C19.walkTag_wide_ok {σ : Type} (w : Nat) (A : Adjactor) (hA : A.Lawful) (i : Nat) (hw : i + 1 < 2 ^ w)
    (f : σ → Nat → σ) (s : σ) (m : Array Nat) (hm : ∀ k, m.getD k 0 ≠ i + 1)
    (hr : ∀ v, v ∈ A.images i → v < m.size) :
    (Kern.walkTag w A i f (s, m)).1 = (Graph.dedup (A.images i)).foldl f s :=
  C19L.mask.walkTag_wide_ok w A hA i hw f s m hm hr

theorem C19.identity_ctor_spec {α : Type} [Inhabited α] (n : Nat) (x : Array α) (hx : x.size = n) :
    Perm.construct 1 (List.replicate n 0) = some ⟨List.range n, List.range n⟩ ∧
    Perm.applySwaps (List.range n) x = x ∧ Perm.applySwapsInv (List.range n) x = x ∧
    Perm.applyPerm (List.range n) x.toList = x.toList ∧ Perm.isBijection (List.range n) = true :=
  C19L.perms3.identity_ctor_spec n x hx

theorem C19.swap_ctor_spec {α : Type} [Inhabited α] (s : List Nat)
    (hs : ∀ i, i < s.length → i ≤ s.getD i 0 ∧ s.getD i 0 < s.length) (x : Array α) (hx : x.size = s.length) :
    Perm.construct 3 s = some ⟨Perm.permFromSwap s, s⟩ ∧ Perm.isBijection (Perm.permFromSwap s) = true ∧
    (Perm.applySwaps s x).toList = Perm.applyPerm (Perm.permFromSwap s) x.toList :=
  C19L.perms3.swap_ctor_spec s hs x hx

theorem C19.invSwap_ctor_is_inverse (s : List Nat)
    (hs : ∀ i, i < s.length → i ≤ s.getD i 0 ∧ s.getD i 0 < s.length) :
    Perm.permFromInvSwap s = Perm.invPerm (Perm.permFromSwap s) ∧
    Perm.isBijection (Perm.permFromInvSwap s) = true ∧
    (∀ i, i < s.length → (Perm.permFromInvSwap s).getD ((Perm.permFromSwap s).getD i 0) 0 = i) ∧
    (∀ i, i < s.length → (Perm.permFromSwap s).getD ((Perm.permFromInvSwap s).getD i 0) 0 = i) :=
  C19L.perms3.invSwap_ctor_is_inverse s hs

theorem C19.invPerm_ctor_spec (v : List Nat) (h : Perm.isBijection v = true) :
    ∃ sw, Perm.construct 4 v = some ⟨Perm.invPerm v, sw⟩ ∧ Perm.isBijection (Perm.invPerm v) = true ∧
      Perm.swapFromPerm (Perm.invPerm v) = some sw :=
  C19L.perms3.invPerm_ctor_spec v h

theorem C19.render_wf (rt : Nat) (g r : Graph) (hwf : g.wf = true) (h : g.render rt = some r) : r.wf = true :=
  C19L.wf.render_wf rt g r hwf h

theorem C19.renderComposite_wf (rt : Nat) (a b r : Graph) (hb : b.wf = true)
    (h : Graph.renderComposite rt a b = some r) : r.wf = true :=
  C19L.wf.renderComposite_wf rt a b r hb h

theorem C19.permuted_wf (g : Graph) (dp ip : List Nat) (hwf : g.wf = true)
    (hip : ∀ k, k < g.nImg → ip.getD k 0 < g.nImg) : (g.permuted dp ip).wf = true :=
  C19L.wf.permuted_wf g dp ip hwf hip

theorem C19.permuteIndices_wf (g : Graph) (p : List Nat) (hwf : g.wf = true) (hp : ∀ k, k < g.nImg → p.getD k 0 < g.nImg) :
    ({ g with adj := g.adj.map fun l => l.map fun k => p.getD k 0 } : Graph).wf = true :=
  C19L.wf.permuteIndices_wf g p hwf hp

theorem C19.partitionGraph_wf (nc : Nat) (col : List Nat) : (Coloring.partitionGraph nc col).wf = true :=
  C19L.wf.partitionGraph_wf nc col

theorem C19.dynGraph_wf (A : Adjactor) (hA : A.Lawful) (hwf : A.toGraph.wf = true) (tr : Bool) :
    (DynGraph.ofAdjactor A tr).toGraph.wf = true :=
  C19L.wf.dynGraph_wf A hA hwf tr

theorem C19.cm_root_unique (g : Graph) (rt : CM.RootType) (seen : List Nat) (r1 r2 : Nat)
    (h1 : CM.IsDocumentedRoot g rt seen r1) (h2 : CM.IsDocumentedRoot g rt seen r2) : r1 = r2 :=
  C19L.cmuniq.cm_root_unique g rt seen r1 r2 h1 h2

theorem C19.cm_chain_unique (g : Graph) (st : CM.SortType) (seen lv : List Nat) (c1 c2 : List (List Nat))
    (h1 : CM.IsLevelChainExact g st seen lv c1) (h2 : CM.IsLevelChainExact g st seen lv c2) : c1 = c2 :=
  C19L.cmuniq.cm_chain_unique g st seen lv c1 c2 h1 h2

theorem C19.cm_components_unique (g : Graph) (rt : CM.RootType) (st : CM.SortType) (seen : List Nat)
    (c1 c2 : List (List (List Nat))) (h1 : CM.AreCmComponents g rt st seen c1) (h2 : CM.AreCmComponents g rt st seen c2)
    (hl : c1.flatten.flatten.length = c2.flatten.flatten.length) : c1 = c2 :=
  C19L.cmuniq.cm_components_unique g rt st seen c1 c2 h1 h2 hl

theorem C19.cm_ordering_unique (g : Graph) (rev : Bool) (rt : CM.RootType) (st : CM.SortType)
    (p1 l1 p2 l2 : List Nat) (h1 : CM.IsCmOrdering g rev rt st p1 l1) (h2 : CM.IsCmOrdering g rev rt st p2 l2) :
    p1 = p2 ∧ l1 = l2 :=
  C19L.cmuniq.cm_ordering_unique g rev rt st p1 l1 p2 l2 h1 h2
