import FeatModel.Model.Adjacency
/-! # C19 — property theorems (the full statement set is being proved; see Lemmas/C19*.lean) -/
open FeatModel.Adj

theorem C19.render_asIs_spec (g : Graph) : g.render 0 = some g := rfl
