import FeatModel.Model.Adjacency
import FeatModel.Lemmas.C19_cm
import FeatModel.Lemmas.C19_color
import FeatModel.Lemmas.C19_perms
import FeatModel.Lemmas.C19_renders
/-! # C19 — property theorems (statements only; proofs live in Lemmas/C19_*.lean) -/
open FeatModel.Adj

theorem C19.render_asIs_spec (g : Graph) : g.render 0 = some g := rfl

theorem C19.injectify_spec (g : Graph) (i : Nat) :
    (g.injectify.row i).Nodup ∧ (∀ k, k ∈ g.injectify.row i ↔ k ∈ g.row i) ∧
    (g.injectify.row i).Sublist (g.row i) ∧ g.injectify.nImg = g.nImg ∧ g.injectify.nDom = g.nDom :=
  C19L.renders.injectify_spec g i

theorem C19.transpose_spec (g : Graph) (i j : Nat) (hi : i < g.nImg) :
    (g.transpose.row i).count j = (g.row j).count i ∧ (g.transpose.row i).Pairwise (· ≤ ·) ∧
    g.transpose.nDom = g.nImg ∧ g.transpose.nImg = g.nDom :=
  C19L.renders.transpose_spec g i j hi

theorem C19.injectifyTranspose_spec (g : Graph) (i j : Nat) (hi : i < g.nImg) :
    (j ∈ g.injectifyTranspose.row i ↔ i ∈ g.row j) ∧ (g.injectifyTranspose.row i).Pairwise (· < ·) ∧
    g.injectifyTranspose.nDom = g.nImg ∧ g.injectifyTranspose.nImg = g.nDom :=
  C19L.renders.injectifyTranspose_spec g i j hi

theorem C19.compose_spec (a b : Graph) (i : Nat) :
    (Graph.compose a b).row i = (a.row i).flatMap b.row ∧
    (∀ k, k ∈ (Graph.compose a b).row i ↔ ∃ j, j ∈ a.row i ∧ k ∈ b.row j) :=
  C19L.renders.compose_spec a b i

theorem C19.sortIndices_spec (g : Graph) (i : Nat) :
    (g.sortIndices.row i).Perm (g.row i) ∧ (g.sortIndices.row i).Pairwise (· ≤ ·) :=
  C19L.renders.sortIndices_spec g i

theorem C19.arrays_faithful (g : Graph) (i : Nat) (hi : i < g.nDom) :
    g.domainPtr.length = g.nDom + 1 ∧
    g.row i = (g.imageIdx.drop (g.domainPtr.getD i 0)).take (g.domainPtr.getD (i+1) 0 - g.domainPtr.getD i 0) :=
  C19L.renders.arrays_faithful g i hi

theorem C19.swapFromPerm_terminates (p : List Nat) (h : Perm.isBijection p = true) :
    ∃ s, Perm.swapFromPerm p = some s ∧ s.length = p.length ∧
      ∀ i, i < p.length → i ≤ s.getD i 0 ∧ s.getD i 0 < p.length :=
  C19L.perms.swapFromPerm_terminates p h

theorem C19.swap_perm_agree {α : Type} [Inhabited α] (p s : List Nat) (h : Perm.isBijection p = true)
    (hs : Perm.swapFromPerm p = some s) (x : Array α) (hx : x.size = p.length) :
    (Perm.applySwaps s x).toList = Perm.applyPerm p x.toList :=
  C19L.perms.swap_perm_agree p s h hs x hx

theorem C19.inverse_swaps_undo {α : Type} (s : List Nat) (x : Array α) :
    Perm.applySwapsInv s (Perm.applySwaps s x) = x ∧ Perm.applySwaps s (Perm.applySwapsInv s x) = x :=
  C19L.perms.inverse_swaps_undo s x

theorem C19.applyPermInv_undoes {α : Type} [Inhabited α] (p : List Nat) (h : Perm.isBijection p = true)
    (x : List α) (hx : x.length = p.length) :
    Perm.applyPermInv p (Perm.applyPerm p x) = x ∧ Perm.applyPerm p (Perm.applyPermInv p x) = x :=
  C19L.perms.applyPermInv_undoes p h x hx

theorem C19.invPerm_spec (p : List Nat) (h : Perm.isBijection p = true) :
    Perm.isBijection (Perm.invPerm p) = true ∧
    (∀ i, i < p.length → (Perm.invPerm p).getD (p.getD i 0) 0 = i) ∧
    (∀ k, k < p.length → p.getD ((Perm.invPerm p).getD k 0) 0 = k) :=
  C19L.perms.invPerm_spec p h

theorem C19.concat_composes {α : Type} [Inhabited α] (p1 p2 : List Nat) (x : List α)
    (h1 : Perm.isBijection p1 = true) (h2 : Perm.isBijection p2 = true) (hl : p1.length = p2.length)
    (hx : x.length = p1.length) :
    Perm.isBijection (p1.map fun k => p2.getD k 0) = true ∧
    Perm.applyPerm (p1.map fun k => p2.getD k 0) x = Perm.applyPerm p1 (Perm.applyPerm p2 x) :=
  C19L.perms.concat_composes p1 p2 x h1 h2 hl hx

theorem C19.permFromSwap_bijection (s : List Nat)
    (hs : ∀ i, i < s.length → i ≤ s.getD i 0 ∧ s.getD i 0 < s.length) :
    Perm.isBijection (Perm.permFromSwap s) = true :=
  C19L.perms.permFromSwap_bijection s hs

theorem C19.coloring_proper (g : Graph) (hsq : g.nImg = g.nDom) (hwf : g.wf = true)
    (hsym : ∀ i j, j ∈ g.row i → i ∈ g.row j) :
    ∀ i j, i < g.nDom → j ∈ g.row i → j ≠ i →
      (Coloring.greedy g).coloring.getD i 0 ≠ (Coloring.greedy g).coloring.getD j 0 :=
  C19L.color.coloring_proper g hsq hwf hsym

theorem C19.coloring_bounds (g : Graph) (hsq : g.nImg = g.nDom) (hwf : g.wf = true) :
    (Coloring.greedy g).numColors ≤ g.maxDegree + 1 ∧
    ∀ i, i < g.nDom → (Coloring.greedy g).coloring.getD i 0 < (Coloring.greedy g).numColors :=
  C19L.color.coloring_bounds g hsq hwf

theorem C19.coloringOrdered_proper (g : Graph) (order : List Nat) (hsq : g.nImg = g.nDom) (hwf : g.wf = true)
    (hord : Perm.isBijection order = true) (hlen : order.length = g.nDom)
    (hsym : ∀ i j, j ∈ g.row i → i ∈ g.row j) :
    ∀ i j, i < g.nDom → j ∈ g.row i → j ≠ i →
      (Coloring.greedyOrdered g order).coloring.getD i 0 ≠ (Coloring.greedyOrdered g order).coloring.getD j 0 :=
  C19L.color.coloringOrdered_proper g order hsq hwf hord hlen hsym

theorem C19.partitionGraph_spec (nc : Nat) (col : List Nat) (h : ∀ c, c ∈ col → c < nc) (j : Nat) (hj : j < col.length) :
    (∀ c, j ∈ (Coloring.partitionGraph nc col).row c ↔ col.getD j 0 = c) ∧
    (∀ c, ((Coloring.partitionGraph nc col).row c).count j ≤ 1) :=
  C19L.color.partitionGraph_spec nc col h j hj

theorem C19.cm_bijection (g : Graph) (hsq : g.nImg = g.nDom) (hwf : g.wf = true) (hn : 0 < g.nDom)
    (rev : Bool) (rt : CM.RootType) (st : CM.SortType) :
    ∃ perm layers, CM.compute g rev rt st = some (perm, layers) ∧ perm.length = g.nDom ∧
      Perm.isBijection perm = true :=
  C19L.cm.cm_bijection g hsq hwf hn rev rt st
