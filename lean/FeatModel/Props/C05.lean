import FeatModel.Lemmas.C05Serialize
import FeatModel.Lemmas.C05Checkpoint
/-!
# C05 — persisted containers read back equal to what was written (binary container format)

The theorems are about `FeatModel.Ser.serialize / deserialize / convert`, the functions the driver
`drv_c05` executes and the correspondence run compares byte for byte with
`LAFEM::Container::_serialize/_deserialize` at float/double × u32/u64.

The checkpoint theorems are about `cpSave / cpLoad / cpIndex / cpRestore` (the functions behind the driver's
`cp` / `cpx` ops).  Text modes: see the end of this file.
-/
open FeatModel.Ser

/-- No write of `_serialize` leaves the `_serialized_size()` buffer, the final `resize(raw_size + 16)` cuts
    no data, and the result has exactly `raw_size + 16 ≤ _serialized_size()` bytes — for every number of
    element/index arrays (including none) and every array size (including 0). -/
theorem C05.serialize_no_overrun (t : Tag) (sDT sIT : Nat) (c : Container)
    (hD : sDT = 4 ∨ sDT = 8 ∨ sDT = 16) (hI : sIT = 4 ∨ sIT = 8) :
    ∃ b, serialize t sDT sIT c = some b ∧ b.length = rawSize sDT sIT c + 16 ∧
      b.length ≤ serializedSize sDT sIT c :=
  length_serialize t sDT sIT c hD hI

/-- Layout of the serialised image: the `uint64` block at 0, the `DT2_` block at the ceil-aligned offset
    `offDt`, the `IT2_` block at the ceil-aligned offset `offIt`; the regions are ordered and disjoint, the
    gaps and the tail are zero bytes. -/
theorem C05.serialize_layout (t : Tag) (sDT sIT : Nat) (c : Container)
    (hD : sDT = 4 ∨ sDT = 8 ∨ sDT = 16) (hI : sIT = 4 ∨ sIT = 8) :
    ∃ z1 z2 z3 : Nat,
      serialize t sDT sIT c = some (wordsBytes 8 (u64Words t sDT sIT c) ++ List.replicate z1 0
        ++ wordsBytes sDT (dtWords c) ++ List.replicate z2 0 ++ wordsBytes sIT (itWords c) ++ List.replicate z3 0)
      ∧ 8 * nWords c + z1 = offDt sDT c
      ∧ offDt sDT c + sDT * (dtWords c).length + z2 = offIt sDT sIT c
      ∧ offIt sDT sIT c + sIT * (itWords c).length + z3 = rawSize sDT sIT c + 16 :=
  serialize_closed t sDT sIT c hD hI

/-- **Round trip.** Deserialising what was serialised gives back the same container — same scalars, the same
    number of arrays, the same sizes, bit-identical contents — for all array counts and sizes, at every
    supported data width (4, 8, 16 bytes) and index width (4, 8 bytes). -/
theorem C05.deserialize_serialize (t : Tag) (sDT sIT : Nat) (c : Container)
    (hD : sDT = 4 ∨ sDT = 8 ∨ sDT = 16) (hI : sIT = 4 ∨ sIT = 8) (hwf : WF t sDT sIT c)
    (b : Bytes) (hs : serialize t sDT sIT c = some b) :
    deserialize t.magic sDT sIT b = some c :=
  FeatModel.Ser.deserialize_serialize t sDT sIT c hD hI hwf b hs

/-- Round trip in total form: serialisation succeeds and reads back. -/
theorem C05.roundtrip_total (t : Tag) (sDT sIT : Nat) (c : Container)
    (hD : sDT = 4 ∨ sDT = 8 ∨ sDT = 16) (hI : sIT = 4 ∨ sIT = 8) (hwf : WF t sDT sIT c) :
    ∃ b, serialize t sDT sIT c = some b ∧ deserialize t.magic sDT sIT b = some c := by
  obtain ⟨b, hb, _, _⟩ := length_serialize t sDT sIT c hD hI
  exact ⟨b, hb, FeatModel.Ser.deserialize_serialize t sDT sIT c hD hI hwf b hb⟩

/-- Reading with a different `FileMode` magic is rejected (the `XASSERTM` of `_deserialize`). -/
theorem C05.wrong_magic_rejected (t : Tag) (sDT sIT : Nat) (c : Container) (magic : Nat)
    (hD : sDT = 4 ∨ sDT = 8 ∨ sDT = 16) (hI : sIT = 4 ∨ sIT = 8) (hwf : WF t sDT sIT c)
    (hm : t.magic ≠ magic) (b : Bytes) (hs : serialize t sDT sIT c = some b) :
    deserialize magic sDT sIT b = none := by
  obtain ⟨z1, z2, z3, hser, _, _, _⟩ := serialize_closed t sDT sIT c hD hI
  rw [hser] at hs
  injection hs with hb
  subst hb
  have r0 := readWords_mid 8 [] [] [rawSize sDT sIT c + 16, t.magic, t.hashDT, t.hashIT, c.elements.length,
      c.indices.length, c.elements.length, c.indices.length, c.scalarIndex.length, c.scalarDt.length, compressOff]
    (sizes c.elements ++ (sizes c.elements).map (· * sDT) ++ sizes c.indices ++ (sizes c.indices).map (· * sIT)
      ++ c.scalarIndex)
    (List.replicate z1 0 ++ wordsBytes sDT (dtWords c) ++ List.replicate z2 0 ++ wordsBytes sIT (itWords c)
      ++ List.replicate z3 0) 0 (by simp)
    (fun v hv => hwf.1 v (by
      have : u64Words t sDT sIT c = [rawSize sDT sIT c + 16, t.magic, t.hashDT, t.hashIT, c.elements.length,
        c.indices.length, c.elements.length, c.indices.length, c.scalarIndex.length, c.scalarDt.length, compressOff]
        ++ sizes c.elements ++ (sizes c.elements).map (· * sDT) ++ sizes c.indices
        ++ (sizes c.indices).map (· * sIT) ++ c.scalarIndex := rfl
      rw [this]
      simp only [List.mem_append]
      exact Or.inl (Or.inl (Or.inl (Or.inl (Or.inl hv))))))
  simp only [List.nil_append] at r0
  simp only [← List.append_assoc] at r0
  have hu : [rawSize sDT sIT c + 16, t.magic, t.hashDT, t.hashIT, c.elements.length,
        c.indices.length, c.elements.length, c.indices.length, c.scalarIndex.length, c.scalarDt.length, compressOff]
        ++ sizes c.elements ++ (sizes c.elements).map (· * sDT) ++ sizes c.indices
        ++ (sizes c.indices).map (· * sIT) ++ c.scalarIndex = u64Words t sDT sIT c := rfl
  rw [hu] at r0
  unfold deserialize
  simp only [List.length_cons, List.length_nil] at r0
  rw [r0]
  simp [hm]

/-- Type-converting binary mode: converting the values to the file types and back is the identity when
    every value is representable (`bk (cv x) = x`). -/
theorem C05.convert_roundtrip (cvD cvI bkD bkI : Nat → Nat) (c : Container)
    (h1 : ∀ v ∈ c.scalarDt, bkD (cvD v) = v) (h2 : ∀ a ∈ c.elements, ∀ v ∈ a, bkD (cvD v) = v)
    (h3 : ∀ a ∈ c.indices, ∀ v ∈ a, bkI (cvI v) = v) :
    convert bkD bkI (convert cvD cvI c) = c :=
  convert_convert cvD cvI bkD bkI c h1 h2 h3

/-- write_out<DT2,IT2> then read back then convert to the memory types: the original container. -/
theorem C05.typed_roundtrip (t : Tag) (sDT sIT : Nat) (cvD cvI bkD bkI : Nat → Nat) (c : Container)
    (hD : sDT = 4 ∨ sDT = 8 ∨ sDT = 16) (hI : sIT = 4 ∨ sIT = 8)
    (hwf : WF t sDT sIT (convert cvD cvI c))
    (h1 : ∀ v ∈ c.scalarDt, bkD (cvD v) = v) (h2 : ∀ a ∈ c.elements, ∀ v ∈ a, bkD (cvD v) = v)
    (h3 : ∀ a ∈ c.indices, ∀ v ∈ a, bkI (cvI v) = v) :
    ∃ b, serialize t sDT sIT (convert cvD cvI c) = some b ∧
      (deserialize t.magic sDT sIT b).map (convert bkD bkI) = some c := by
  obtain ⟨b, hb, hr⟩ := C05.roundtrip_total t sDT sIT (convert cvD cvI c) hD hI hwf
  exact ⟨b, hb, by rw [hr]; simp [convert_convert cvD cvI bkD bkI c h1 h2 h3]⟩

/-- the hypotheses are satisfiable by a non-trivial container: a 3×3 CSR matrix with an empty middle row, a
    zero-size array and a scalar, at float/u32 -/
example : WF { magic := 4, hashDT := 0x600000008, hashIT := 0x100000008 } 4 4
    { scalarIndex := [9, 3, 3, 2], scalarDt := [0x3f800000],
      elements := [[0x3f800000, 0x40000000], []], indices := [[0, 2], [0, 1, 1, 2]] } := by
  refine ⟨?_, ?_, ?_, ?_⟩ <;> decide

/-- **Checkpoint framing.** For pairwise distinct identifiers (exact, case-sensitive byte equality) every
    registered (identifier, bytes) pair is found again by `restore_object` after `save`/`load` through a
    `BinaryStream` — for any number of objects and any registration order; identifiers may be prefixes of each
    other, differ only in letter case, contain any bytes and have any length below 2^64. -/
theorem C05.checkpoint_roundtrip (objs : List (Bytes × Bytes)) (hnd : (objs.map (·.1)).Nodup)
    (hwf : ∀ o ∈ objs, o.1.length < 256 ^ 8 ∧ o.2.length < 256 ^ 8)
    (hlen : (cpCollect objs).length < 256 ^ 8) :
    ∀ o ∈ objs, cpRestore (cpLoad (cpSave objs)) o.1 = some o.2 := by
  intro o ho
  obtain ⟨hmem, hnd'⟩ := mapOf_spec objs hnd
  rw [cpLoad_cpSave objs hlen]
  exact cpRestore_sorted (mapOf objs) hnd' (fun x hx => hwf x ((hmem x).mp hx)) o.1 o.2 ((hmem o).mpr ho)

/-- The parse loop of `_restore_checkpoint_data` computes exactly the table identifier ↦ record offset of the
    sorted records (so an identifier is never matched by prefix, case folding or position). -/
theorem C05.checkpoint_index (objs : List (Bytes × Bytes)) (hnd : (objs.map (·.1)).Nodup)
    (hwf : ∀ o ∈ objs, o.1.length < 256 ^ 8 ∧ o.2.length < 256 ^ 8) :
    cpIndex (cpCollect objs) (cpCollect objs).length 0 = cpIndexSpec 0 (mapOf objs) := by
  obtain ⟨hmem, _⟩ := mapOf_spec objs hnd
  have := cpIndex_collect (mapOf objs) [] (cpCollectSorted (mapOf objs)).length (length_collect_ge _)
    (fun x hx => hwf x ((hmem x).mp hx))
  simpa [cpCollect] using this

/-- Several containers in one checkpoint: each one is restored, under its identifier, to exactly the container
    that was registered under that identifier (checkpoint framing composed with the container round trip;
    `recs` is the list the driver builds). -/
theorem C05.checkpoint_containers (t : Tag) (cs : List (Bytes × Container))
    (hnd : (cs.map (·.1)).Nodup) (hwfc : ∀ o ∈ cs, WF t 8 8 o.2) (hname : ∀ o ∈ cs, o.1.length < 256 ^ 8)
    (hlen : (cpCollect (cs.map fun o => (o.1, (serialize t 8 8 o.2).getD []))).length < 256 ^ 8) :
    ∀ o ∈ cs, (cpRestore (cpLoad (cpSave (cs.map fun o => (o.1, (serialize t 8 8 o.2).getD [])))) o.1).bind
      (deserialize t.magic 8 8) = some o.2 := by
  intro o ho
  have hnames : (cs.map fun o => (o.1, (serialize t 8 8 o.2).getD [])).map (·.1) = cs.map (·.1) := by
    simp [List.map_map, Function.comp_def]
  have hsz : ∀ c : Container, WF t 8 8 c → ((serialize t 8 8 c).getD []).length < 256 ^ 8 := by
    intro c hc
    obtain ⟨b, hb, hl, _⟩ := length_serialize t 8 8 c (by simp) (by simp)
    rw [hb, Option.getD_some, hl]
    exact hc.1 _ (by simp [u64Words])
  have hr := C05.checkpoint_roundtrip (cs.map fun o => (o.1, (serialize t 8 8 o.2).getD []))
    (by rw [hnames]; exact hnd)
    (by
      intro x hx
      obtain ⟨y, hy, rfl⟩ := List.mem_map.mp hx
      exact ⟨hname y hy, hsz y.2 (hwfc y hy)⟩)
    hlen (o.1, (serialize t 8 8 o.2).getD []) (List.mem_map.mpr ⟨o, ho, rfl⟩)
  rw [hr]
  obtain ⟨b, hb, hd⟩ := C05.roundtrip_total t 8 8 o.2 (by simp) (by simp) (hwfc o ho)
  simp [hb, hd]
