import FeatModel.Lemmas.C05Serialize
import FeatModel.Lemmas.C05Checkpoint
import FeatModel.Lemmas.C05TextCsr
import FeatModel.Lemmas.C05TextVec
import FeatModel.Lemmas.C05Kinds
import FeatModel.Lemmas.C05Sci
/-!
# C05 — persisted containers read back equal to what was written (binary container format)

The theorems are about `FeatModel.Ser.serialize / deserialize / convert`, the functions the driver
`drv_c05` executes and the correspondence run compares byte for byte with
`LAFEM::Container::_serialize/_deserialize` at float/double × u32/u64.

The checkpoint theorems are about `cpSave / cpLoad / cpIndex / cpRestore` (the functions behind the driver's
`cp` / `cpx` ops).  Text modes: see the end of this file.

## Hypotheses that the driver evaluates on every case

The decidable hypotheses of the round-trip theorems are part of the executable model and are evaluated by `drv_c05`
on every correspondence case; a case violating one prints `HYP-FAIL …`, which can never equal the implementation
output, so the check fails instead of silently running outside the theorems:
`ImageOK` and `Representable` (`C05.binary_roundtrip_across_widths`) on every `raw`/`kind` case,
`Exact7` for every value and `decide (CsrWF …)` on every case of the exact text stream (`C05.*_exact`,
`C05.mtx_roundtrip_csr`).  Not proved: the BCSR MatrixMarket writer read by the CSR reader (`bcsrMtxWrite`,
model-compared and judged by the oracle only — its entries are not written in row-major order, so the theorem needs
the general sorted-insertion argument), symmetric-format files, `float` rounding of `atof`.

## What is modelled as unbounded, and what ties it to the C++

* `Index` / `std::uint64_t` / `std::size_t` / `long` (array sizes, offsets `global_i`, header words, checkpoint lengths,
  `std::streamsize` casts) are `Nat`; the theorems carry the explicit hypotheses "`< 256 ^ 8`" where a value is
  stored in a 64-bit word, but no wrap-around of the *offset arithmetic* is modelled.
* `IT_`/`IT2_` (`unsigned int` / `unsigned long`) index values are `Nat` with the explicit bound `< 256 ^ sIT`;
  narrowing `IT2_(t)` is `cvIndex` (mod `256 ^ w`) and only claimed to round-trip under `Representable`.
* `DT_` values are opaque bit patterns (`Nat < 256 ^ sDT`) in the binary theorems and exact rationals in the text
  theorems; `float`/`double` rounding of `atof` is outside the theorems (`Exact7` values are dyadic/decimal).
* `std::string` / `getline` lines are unbounded `List Char`; `std::map` is a sorted association list;
  `MemoryPool` allocation rounding (multiples of 4 elements) and `SparseVector`'s allocation step
  `min(size, 1000)` do not appear in the list model at all.
* zlib/zfp compressed code paths are compiled out of this build and not modelled.

None of these C++ size limits is visible to the theorems.  The correspondence stream `boundary-sizes` of
`checks/props/c05.py` is what ties them: sizes 3…33 around multiples of 4/8/16, 127/128/129, 255/256/257,
1000/1001 (and 32767…65537 in the thorough tier), index values up to `2^32 − 1`, blobs around 64 KiB, three-digit
decimal exponents, with the non-zero content in the last rows / highest indices, compared byte for byte with the
model (up to size 4096; the list model is quadratic beyond) and judged by the independent oracle.
-/
open FeatModel.Ser FeatModel.TextIO

/-- No write of `_serialize` leaves the `_serialized_size()` buffer, the final `resize(raw_size + 16)` cuts
    no data, and the result has exactly `raw_size + 16 ≤ _serialized_size()` bytes — for every number of
    element/index arrays (including none) and every array size (including 0). -/
theorem C05.serialize_no_overrun (t : Tag) (sDT sIT : Nat) (c : Container)
    (hD : sDT = 4 ∨ sDT = 8 ∨ sDT = 16) (hI : sIT = 4 ∨ sIT = 8) :
    ∃ b, serialize t sDT sIT c = some b ∧ b.length = rawSize sDT sIT c + 16 ∧
      b.length ≤ serializedSize sDT sIT c :=
  length_serialize t sDT sIT c hD hI

/-- Layout of the serialised image: the `uint64` block at 0, the `DT2_` block at the ceil-aligned offset
    `offDt`, the `IT2_` block at the ceil-aligned offset `offIt`; the regions are ordered and disjoint, the
    gaps and the tail are zero bytes. -/
theorem C05.serialize_layout (t : Tag) (sDT sIT : Nat) (c : Container)
    (hD : sDT = 4 ∨ sDT = 8 ∨ sDT = 16) (hI : sIT = 4 ∨ sIT = 8) :
    ∃ z1 z2 z3 : Nat,
      serialize t sDT sIT c = some (wordsBytes 8 (u64Words t sDT sIT c) ++ List.replicate z1 0
        ++ wordsBytes sDT (dtWords c) ++ List.replicate z2 0 ++ wordsBytes sIT (itWords c) ++ List.replicate z3 0)
      ∧ 8 * nWords c + z1 = offDt sDT c
      ∧ offDt sDT c + sDT * (dtWords c).length + z2 = offIt sDT sIT c
      ∧ offIt sDT sIT c + sIT * (itWords c).length + z3 = rawSize sDT sIT c + 16 :=
  serialize_closed t sDT sIT c hD hI

/-- The alignment gaps are smaller than one word of the following block and use at most 12 of the 16 padding
    bytes: the image always ends in at least 4 zero bytes, and an odd number of `float` words before a `uint64`
    index block is followed by exactly the 4 bytes the ceil-division skips. -/
theorem C05.serialize_gaps (t : Tag) (sDT sIT : Nat) (c : Container)
    (hD : sDT = 4 ∨ sDT = 8 ∨ sDT = 16) (hI : sIT = 4 ∨ sIT = 8) :
    ∃ z1 z2 z3 : Nat,
      serialize t sDT sIT c = some (wordsBytes 8 (u64Words t sDT sIT c) ++ List.replicate z1 0
        ++ wordsBytes sDT (dtWords c) ++ List.replicate z2 0 ++ wordsBytes sIT (itWords c) ++ List.replicate z3 0)
      ∧ z1 + z2 + z3 = 16 ∧ z1 < sDT ∧ z2 < sIT ∧ 4 ≤ z3
      ∧ (8 * nWords c + z1) % sDT = 0 ∧ (8 * nWords c + z1 + sDT * (dtWords c).length + z2) % sIT = 0 := by
  obtain ⟨z1, z2, z3, h, h1, h2, h3⟩ := serialize_closed t sDT sIT c hD hI
  refine ⟨z1, z2, z3, h, ?_⟩
  rcases hD with rfl | rfl | rfl <;> rcases hI with rfl | rfl <;>
    simp only [offDt, offIt, ceilDiv, rawSize] at h1 h2 h3 <;> omega

/-- **Round trip.** Deserialising what was serialised gives back the same container — same scalars, the same
    number of arrays, the same sizes, bit-identical contents — for all array counts and sizes, at every
    supported data width (4, 8, 16 bytes) and index width (4, 8 bytes). -/
theorem C05.deserialize_serialize (t : Tag) (sDT sIT : Nat) (c : Container)
    (hD : sDT = 4 ∨ sDT = 8 ∨ sDT = 16) (hI : sIT = 4 ∨ sIT = 8) (hwf : WF t sDT sIT c)
    (b : Bytes) (hs : serialize t sDT sIT c = some b) :
    deserialize t.magic sDT sIT b = some c :=
  FeatModel.Ser.deserialize_serialize t sDT sIT c hD hI hwf b hs

/-- Round trip in total form: serialisation succeeds and reads back. -/
theorem C05.roundtrip_total (t : Tag) (sDT sIT : Nat) (c : Container)
    (hD : sDT = 4 ∨ sDT = 8 ∨ sDT = 16) (hI : sIT = 4 ∨ sIT = 8) (hwf : WF t sDT sIT c) :
    ∃ b, serialize t sDT sIT c = some b ∧ deserialize t.magic sDT sIT b = some c := by
  obtain ⟨b, hb, _, _⟩ := length_serialize t sDT sIT c hD hI
  exact ⟨b, hb, FeatModel.Ser.deserialize_serialize t sDT sIT c hD hI hwf b hb⟩

/-- The first word of a serialised image is its own length — the size the stream overload
    `_deserialize(FileMode, std::istream&)` peeks before it reads the record. -/
theorem C05.stream_record_size (t : Tag) (sDT sIT : Nat) (c : Container)
    (hD : sDT = 4 ∨ sDT = 8 ∨ sDT = 16) (hI : sIT = 4 ∨ sIT = 8) (hwf : WF t sDT sIT c)
    (b : Bytes) (hs : serialize t sDT sIT c = some b) : leNat (b.take 8) = b.length ∧ 8 ≤ b.length :=
  size_word t sDT sIT c hD hI hwf b hs

/-- Reading a record at **any** stream offset (behind junk or earlier records, in front of later ones) returns the
    container stored *there* and positions the stream exactly behind that record. -/
theorem C05.read_at_offset (t : Tag) (sDT sIT : Nat) (c : Container)
    (hD : sDT = 4 ∨ sDT = 8 ∨ sDT = 16) (hI : sIT = 4 ∨ sIT = 8) (hwf : WF t sDT sIT c)
    (b : Bytes) (hs : serialize t sDT sIT c = some b) (pre post : Bytes) :
    readFrom t.magic sDT sIT (pre ++ b ++ post) pre.length = some (c, pre.length + b.length) :=
  readFrom_at t sDT sIT c hD hI hwf b hs pre post

/-- **Several containers in one stream.** For every list of containers (any kinds, equal or unequal record
    sizes) written one after the other behind an arbitrary prefix `junk`, reading as many times returns them in
    order, each from its own offset, and ends exactly at the end of the stream. -/
theorem C05.multi_roundtrip (sDT sIT : Nat) (hD : sDT = 4 ∨ sDT = 8 ∨ sDT = 16) (hI : sIT = 4 ∨ sIT = 8)
    (objs : List (Tag × Container)) (junk : Bytes) (hwf : ∀ o ∈ objs, WF o.1 sDT sIT o.2) :
    readAll sDT sIT (junk ++ writeAll sDT sIT objs) (objs.map (·.1.magic)) junk.length
      = some (objs.map (·.2), (junk ++ writeAll sDT sIT objs).length) := by
  have := readAll_writeAll sDT sIT hD hI objs junk [] hwf
  simpa using this

/-- Reading with a different `FileMode` magic is rejected (the `XASSERTM` of `_deserialize`). -/
theorem C05.wrong_magic_rejected (t : Tag) (sDT sIT : Nat) (c : Container) (magic : Nat)
    (hD : sDT = 4 ∨ sDT = 8 ∨ sDT = 16) (hI : sIT = 4 ∨ sIT = 8) (hwf : WF t sDT sIT c)
    (hm : t.magic ≠ magic) (b : Bytes) (hs : serialize t sDT sIT c = some b) :
    deserialize magic sDT sIT b = none := by
  obtain ⟨z1, z2, z3, hser, _, _, _⟩ := serialize_closed t sDT sIT c hD hI
  rw [hser] at hs
  injection hs with hb
  subst hb
  have r0 := readWords_mid 8 [] [] [rawSize sDT sIT c + 16, t.magic, t.hashDT, t.hashIT, c.elements.length,
      c.indices.length, c.elements.length, c.indices.length, c.scalarIndex.length, c.scalarDt.length, compressOff]
    (sizes c.elements ++ (sizes c.elements).map (· * sDT) ++ sizes c.indices ++ (sizes c.indices).map (· * sIT)
      ++ c.scalarIndex)
    (List.replicate z1 0 ++ wordsBytes sDT (dtWords c) ++ List.replicate z2 0 ++ wordsBytes sIT (itWords c)
      ++ List.replicate z3 0) 0 (by simp)
    (fun v hv => hwf.1 v (by
      have : u64Words t sDT sIT c = [rawSize sDT sIT c + 16, t.magic, t.hashDT, t.hashIT, c.elements.length,
        c.indices.length, c.elements.length, c.indices.length, c.scalarIndex.length, c.scalarDt.length, compressOff]
        ++ sizes c.elements ++ (sizes c.elements).map (· * sDT) ++ sizes c.indices
        ++ (sizes c.indices).map (· * sIT) ++ c.scalarIndex := rfl
      rw [this]
      simp only [List.mem_append]
      exact Or.inl (Or.inl (Or.inl (Or.inl (Or.inl hv))))))
  simp only [List.nil_append] at r0
  simp only [← List.append_assoc] at r0
  have hu : [rawSize sDT sIT c + 16, t.magic, t.hashDT, t.hashIT, c.elements.length,
        c.indices.length, c.elements.length, c.indices.length, c.scalarIndex.length, c.scalarDt.length, compressOff]
        ++ sizes c.elements ++ (sizes c.elements).map (· * sDT) ++ sizes c.indices
        ++ (sizes c.indices).map (· * sIT) ++ c.scalarIndex = u64Words t sDT sIT c := rfl
  rw [hu] at r0
  unfold deserialize
  simp only [List.length_cons, List.length_nil] at r0
  rw [r0]
  simp [hm]

/-- Type-converting binary mode: converting the values to the file types and back is the identity when
    every value is representable (`bk (cv x) = x`). -/
theorem C05.convert_roundtrip (cvD cvI bkD bkI : Nat → Nat) (c : Container)
    (h1 : ∀ v ∈ c.scalarDt, bkD (cvD v) = v) (h2 : ∀ a ∈ c.elements, ∀ v ∈ a, bkD (cvD v) = v)
    (h3 : ∀ a ∈ c.indices, ∀ v ∈ a, bkI (cvI v) = v) :
    convert bkD bkI (convert cvD cvI c) = c :=
  convert_convert cvD cvI bkD bkI c h1 h2 h3

/-- write_out<DT2,IT2> then read back then convert to the memory types: the original container. -/
theorem C05.typed_roundtrip (t : Tag) (sDT sIT : Nat) (cvD cvI bkD bkI : Nat → Nat) (c : Container)
    (hD : sDT = 4 ∨ sDT = 8 ∨ sDT = 16) (hI : sIT = 4 ∨ sIT = 8)
    (hwf : WF t sDT sIT (convert cvD cvI c))
    (h1 : ∀ v ∈ c.scalarDt, bkD (cvD v) = v) (h2 : ∀ a ∈ c.elements, ∀ v ∈ a, bkD (cvD v) = v)
    (h3 : ∀ a ∈ c.indices, ∀ v ∈ a, bkI (cvI v) = v) :
    ∃ b, serialize t sDT sIT (convert cvD cvI c) = some b ∧
      (deserialize t.magic sDT sIT b).map (convert bkD bkI) = some c := by
  obtain ⟨b, hb, hr⟩ := C05.roundtrip_total t sDT sIT (convert cvD cvI c) hD hI hwf
  exact ⟨b, hb, by rw [hr]; simp [convert_convert cvD cvI bkD bkI c h1 h2 h3]⟩

/-- the hypotheses are satisfiable by a non-trivial container: a 3×3 CSR matrix with an empty middle row, a
    zero-size array and a scalar, at float/u32 -/
example : WF { magic := 4, hashDT := 0x600000008, hashIT := 0x100000008 } 4 4
    { scalarIndex := [9, 3, 3, 2], scalarDt := [0x3f800000],
      elements := [[0x3f800000, 0x40000000], []], indices := [[0, 2], [0, 1, 1, 2]] } := by
  refine ⟨?_, ?_, ?_, ?_⟩ <;> decide

/-- **Checkpoint framing.** For pairwise distinct identifiers (exact, case-sensitive byte equality) every
    registered (identifier, bytes) pair is found again by `restore_object` after `save`/`load` through a
    `BinaryStream` — for any number of objects and any registration order; identifiers may be prefixes of each
    other, differ only in letter case, contain any bytes and have any length below 2^64. -/
theorem C05.checkpoint_roundtrip (objs : List (Bytes × Bytes)) (hnd : (objs.map (·.1)).Nodup)
    (hwf : ∀ o ∈ objs, o.1.length < 256 ^ 8 ∧ o.2.length < 256 ^ 8)
    (hlen : (cpCollect objs).length < 256 ^ 8) :
    ∀ o ∈ objs, cpRestore (cpLoad (cpSave objs)) o.1 = some o.2 := by
  intro o ho
  obtain ⟨hmem, hnd'⟩ := mapOf_spec objs hnd
  rw [cpLoad_cpSave objs hlen]
  exact cpRestore_sorted (mapOf objs) hnd' (fun x hx => hwf x ((hmem x).mp hx)) o.1 o.2 ((hmem o).mpr ho)

/-- The parse loop of `_restore_checkpoint_data` computes exactly the table identifier ↦ record offset of the
    sorted records (so an identifier is never matched by prefix, case folding or position). -/
theorem C05.checkpoint_index (objs : List (Bytes × Bytes)) (hnd : (objs.map (·.1)).Nodup)
    (hwf : ∀ o ∈ objs, o.1.length < 256 ^ 8 ∧ o.2.length < 256 ^ 8) :
    cpIndex (cpCollect objs) (cpCollect objs).length 0 = cpIndexSpec 0 (mapOf objs) := by
  obtain ⟨hmem, _⟩ := mapOf_spec objs hnd
  have := cpIndex_collect (mapOf objs) [] (cpCollectSorted (mapOf objs)).length (length_collect_ge _)
    (fun x hx => hwf x ((hmem x).mp hx))
  simpa [cpCollect] using this

/-- Several containers in one checkpoint: each one is restored, under its identifier, to exactly the container
    that was registered under that identifier (checkpoint framing composed with the container round trip;
    `recs` is the list the driver builds). -/
theorem C05.checkpoint_containers (t : Tag) (cs : List (Bytes × Container))
    (hnd : (cs.map (·.1)).Nodup) (hwfc : ∀ o ∈ cs, WF t 8 8 o.2) (hname : ∀ o ∈ cs, o.1.length < 256 ^ 8)
    (hlen : (cpCollect (cs.map fun o => (o.1, (serialize t 8 8 o.2).getD []))).length < 256 ^ 8) :
    ∀ o ∈ cs, (cpRestore (cpLoad (cpSave (cs.map fun o => (o.1, (serialize t 8 8 o.2).getD [])))) o.1).bind
      (deserialize t.magic 8 8) = some o.2 := by
  intro o ho
  have hnames : (cs.map fun o => (o.1, (serialize t 8 8 o.2).getD [])).map (·.1) = cs.map (·.1) := by
    simp [List.map_map, Function.comp_def]
  have hsz : ∀ c : Container, WF t 8 8 c → ((serialize t 8 8 c).getD []).length < 256 ^ 8 := by
    intro c hc
    obtain ⟨b, hb, hl, _⟩ := length_serialize t 8 8 c (by simp) (by simp)
    rw [hb, Option.getD_some, hl]
    exact hc.1 _ (by simp [u64Words])
  have hr := C05.checkpoint_roundtrip (cs.map fun o => (o.1, (serialize t 8 8 o.2).getD []))
    (by rw [hnames]; exact hnd)
    (by
      intro x hx
      obtain ⟨y, hy, rfl⟩ := List.mem_map.mp hx
      exact ⟨hname y hy, hsz y.2 (hwfc y hy)⟩)
    hlen (o.1, (serialize t 8 8 o.2).getD []) (List.mem_map.mpr ⟨o, ho, rfl⟩)
  rw [hr]
  obtain ⟨b, hb, hd⟩ := C05.roundtrip_total t 8 8 o.2 (by simp) (by simp) (hwfc o ho)
  simp [hb, hd]

/-- registering objects under pairwise distinct identifiers succeeds and builds exactly the map that `save` writes -/
theorem C05.checkpoint_register_distinct (objs : List (Bytes × Bytes)) (hnd : (objs.map (·.1)).Nodup) :
    cpRegisterAll [] objs = some (mapOf objs) :=
  cpRegisterAll_distinct objs [] (by simpa [keys] using hnd)

/-- a repeated identifier is **reported** (`add_object` asserts), never silently overwritten or merged -/
theorem C05.checkpoint_duplicate_reported (objs : List (Bytes × Bytes)) (hdup : ¬ (objs.map (·.1)).Nodup) :
    cpRegisterAll [] objs = none :=
  cpRegisterAll_duplicate objs [] (by simp [keys]) (by simpa [keys] using hdup)

/-- restoring an identifier that was never registered is **reported** (`restore_object` asserts): no other
    object's data is returned for it, however similar the identifiers are -/
theorem C05.checkpoint_missing_reported (objs : List (Bytes × Bytes)) (hnd : (objs.map (·.1)).Nodup)
    (hwf : ∀ o ∈ objs, o.1.length < 256 ^ 8 ∧ o.2.length < 256 ^ 8)
    (hlen : (cpCollect objs).length < 256 ^ 8) (name : Bytes) (hmiss : name ∉ objs.map (·.1)) :
    cpRestore (cpLoad (cpSave objs)) name = none := by
  obtain ⟨hmem, _⟩ := mapOf_spec objs hnd
  rw [cpLoad_cpSave objs hlen]
  apply cpRestore_missing (mapOf objs) (fun x hx => hwf x ((hmem x).mp hx))
  intro hk
  obtain ⟨o, ho, rfl⟩ := List.mem_map.mp hk
  exact hmiss (List.mem_map.mpr ⟨o, (hmem o).mp ho, rfl⟩)

/-- `DistFileIO::write_combined` then `read_combined` for one process (the file behind
    `CheckpointControl::save/load(filename)`): shared data and buffer come back byte for byte; an empty part leaves
    the caller's vector untouched. -/
theorem C05.dist_file_roundtrip (s b s0 b0 : Bytes) (h : 40 + b.length + s.length < 256 ^ 8) :
    dfRead (dfWrite s b) s0 b0 = some (if s.length > 0 then s else s0, if b.length > 0 then b else b0) :=
  dfRead_dfWrite s b s0 b0 h

/-! ## every container kind in the typed binary round trip

`write_out<DT2_, IT2_>` / `serialize<DT2_, IT2_>()` then read back and convert to the memory types gives the
original container, for every kind the harness runs; the hypotheses are the natural size bounds (everything fits
into 64 bits) and representability of the values in the file types. -/

/-- generic form: any container whose sizes fit into 64 bits -/
theorem C05.typed_roundtrip_bounds (t : Tag) (sDT sIT : Nat) (cvD cvI bkD bkI : Nat → Nat) (c : Container)
    (hD : sDT = 4 ∨ sDT = 8 ∨ sDT = 16) (hI : sIT = 4 ∨ sIT = 8)
    (ht : t.magic < 256 ^ 8 ∧ t.hashDT < 256 ^ 8 ∧ t.hashIT < 256 ^ 8)
    (hraw : rawSize sDT sIT c + 16 < 256 ^ 8) (hsi : ∀ v ∈ c.scalarIndex, v < 256 ^ 8)
    (hcD : ∀ x, cvD x < 256 ^ sDT) (hcI : ∀ x, cvI x < 256 ^ sIT)
    (h1 : ∀ v ∈ c.scalarDt, bkD (cvD v) = v) (h2 : ∀ a ∈ c.elements, ∀ v ∈ a, bkD (cvD v) = v)
    (h3 : ∀ a ∈ c.indices, ∀ v ∈ a, bkI (cvI v) = v) :
    ∃ b, serialize t sDT sIT (convert cvD cvI c) = some b ∧
      (deserialize t.magic sDT sIT b).map (convert bkD bkI) = some c :=
  C05.typed_roundtrip t sDT sIT cvD cvI bkD bkI c hD hI
    (WF_convert t sDT sIT cvD cvI c (by omega) (by omega) ht hraw hsi hcD hcI) h1 h2 h3

/-- **binary mode across data/index widths** with decidable hypotheses: if the converted image is well formed
    (`ImageOK`, a Boolean check) and every value is representable in the file types (`Representable`, a Boolean
    check), then `write_out<DT2_, IT2_>`, read back, convert back gives the original container bit for bit -/
theorem C05.binary_roundtrip_across_widths (t : Tag) (sDT sIT : Nat) (cvD cvI bkD bkI : Nat → Nat) (c : Container)
    (hD : sDT = 4 ∨ sDT = 8 ∨ sDT = 16) (hI : sIT = 4 ∨ sIT = 8)
    (hok : ImageOK t sDT sIT (convert cvD cvI c) = true) (hrep : Representable cvD cvI bkD bkI c = true) :
    ∃ b, serialize t sDT sIT (convert cvD cvI c) = some b ∧
      (deserialize t.magic sDT sIT b).map (convert bkD bkI) = some c := by
  obtain ⟨h1, h2, h3⟩ := representable_spec cvD cvI bkD bkI c hrep
  exact C05.typed_roundtrip t sDT sIT cvD cvI bkD bkI c hD hI (WF_of_ImageOK _ _ _ _ hok) h1 h2 h3

/-- non-vacuity, with the conversions the driver uses: a 2×3 CSR matrix held as double/u64 (values 1.5 and −2,
    an empty row) written as float/u32 is representable and its image is well formed; with the value 0.1 (not a
    float) it is not representable -/
example :
    ImageOK ⟨4, 0x600000008, 0x100000008⟩ 4 4
        (convert (cvData 8 4) (cvIndex 4)
          ⟨[6, 2, 3, 2], [], [[0x3FF8000000000000, 0xC000000000000000]], [[0, 2], [0, 0, 2]]⟩) = true ∧
      Representable (cvData 8 4) (cvIndex 4) (cvData 4 8) id
          ⟨[6, 2, 3, 2], [], [[0x3FF8000000000000, 0xC000000000000000]], [[0, 2], [0, 0, 2]]⟩ = true ∧
      Representable (cvData 8 4) (cvIndex 4) (cvData 4 8) id
          ⟨[6, 2, 3, 2], [], [[0x3FB999999999999A, 0xC000000000000000]], [[0, 2], [0, 0, 2]]⟩ = false := by
  decide +kernel

theorem C05.dv_roundtrip (t : Tag) (sDT sIT : Nat) (cvD cvI bkD bkI : Nat → Nat) (vals : List Nat)
    (hD : sDT = 4 ∨ sDT = 8 ∨ sDT = 16) (hI : sIT = 4 ∨ sIT = 8)
    (ht : t.magic < 256 ^ 8 ∧ t.hashDT < 256 ^ 8 ∧ t.hashIT < 256 ^ 8)
    (hraw : rawSize sDT sIT (dvLayout vals) + 16 < 256 ^ 8) (h0 : vals.length < 256 ^ 8)
    (hcD : ∀ x, cvD x < 256 ^ sDT) (hcI : ∀ x, cvI x < 256 ^ sIT)
    (hr1 : ∀ a ∈ (dvLayout vals).elements, ∀ v ∈ a, bkD (cvD v) = v)
    (hr2 : ∀ a ∈ (dvLayout vals).indices, ∀ v ∈ a, bkI (cvI v) = v) :
    ∃ b, serialize t sDT sIT (convert cvD cvI (dvLayout vals)) = some b ∧
      (deserialize t.magic sDT sIT b).map (convert bkD bkI) = some (dvLayout vals) :=
  C05.typed_roundtrip t sDT sIT cvD cvI bkD bkI _ hD hI
    (dv_image_wf t sDT sIT cvD cvI vals (by omega) (by omega) ht hraw h0 hcD hcI)
    (by unfold dvLayout; repeat' split
        all_goals simp) hr1 hr2

theorem C05.dvb_roundtrip (t : Tag) (sDT sIT : Nat) (cvD cvI bkD bkI : Nat → Nat) (bs : Nat) (vals : List Nat)
    (hD : sDT = 4 ∨ sDT = 8 ∨ sDT = 16) (hI : sIT = 4 ∨ sIT = 8)
    (ht : t.magic < 256 ^ 8 ∧ t.hashDT < 256 ^ 8 ∧ t.hashIT < 256 ^ 8)
    (hraw : rawSize sDT sIT (dvbLayout bs vals) + 16 < 256 ^ 8) (h0 : vals.length / bs < 256 ^ 8)
    (hcD : ∀ x, cvD x < 256 ^ sDT) (hcI : ∀ x, cvI x < 256 ^ sIT)
    (hr1 : ∀ a ∈ (dvbLayout bs vals).elements, ∀ v ∈ a, bkD (cvD v) = v)
    (hr2 : ∀ a ∈ (dvbLayout bs vals).indices, ∀ v ∈ a, bkI (cvI v) = v) :
    ∃ b, serialize t sDT sIT (convert cvD cvI (dvbLayout bs vals)) = some b ∧
      (deserialize t.magic sDT sIT b).map (convert bkD bkI) = some (dvbLayout bs vals) :=
  C05.typed_roundtrip t sDT sIT cvD cvI bkD bkI _ hD hI
    (dvb_image_wf t sDT sIT cvD cvI bs vals (by omega) (by omega) ht hraw h0 hcD hcI)
    (by unfold dvbLayout; repeat' split
        all_goals simp) hr1 hr2

theorem C05.sv_roundtrip (t : Tag) (sDT sIT : Nat) (cvD cvI bkD bkI : Nat → Nat) (size : Nat) (idx vals : List Nat)
    (hD : sDT = 4 ∨ sDT = 8 ∨ sDT = 16) (hI : sIT = 4 ∨ sIT = 8)
    (ht : t.magic < 256 ^ 8 ∧ t.hashDT < 256 ^ 8 ∧ t.hashIT < 256 ^ 8)
    (hraw : rawSize sDT sIT (svLayout size idx vals) + 16 < 256 ^ 8) (h0 : size < 256 ^ 8) (h1 : vals.length < 256 ^ 8)
    (hcD : ∀ x, cvD x < 256 ^ sDT) (hcI : ∀ x, cvI x < 256 ^ sIT)
    (hr1 : ∀ a ∈ (svLayout size idx vals).elements, ∀ v ∈ a, bkD (cvD v) = v)
    (hr2 : ∀ a ∈ (svLayout size idx vals).indices, ∀ v ∈ a, bkI (cvI v) = v) :
    ∃ b, serialize t sDT sIT (convert cvD cvI (svLayout size idx vals)) = some b ∧
      (deserialize t.magic sDT sIT b).map (convert bkD bkI) = some (svLayout size idx vals) :=
  C05.typed_roundtrip t sDT sIT cvD cvI bkD bkI _ hD hI
    (sv_image_wf t sDT sIT cvD cvI size idx vals (by omega) (by omega) ht hraw h0 h1 hcD hcI)
    (by unfold svLayout; repeat' split
        all_goals simp) hr1 hr2

theorem C05.dm_roundtrip (t : Tag) (sDT sIT : Nat) (cvD cvI bkD bkI : Nat → Nat) (r c : Nat) (vals : List Nat)
    (hD : sDT = 4 ∨ sDT = 8 ∨ sDT = 16) (hI : sIT = 4 ∨ sIT = 8)
    (ht : t.magic < 256 ^ 8 ∧ t.hashDT < 256 ^ 8 ∧ t.hashIT < 256 ^ 8)
    (hraw : rawSize sDT sIT (dmLayout r c vals) + 16 < 256 ^ 8) (h0 : r * c < 256 ^ 8) (h1 : r < 256 ^ 8) (h2 : c < 256 ^ 8)
    (hcD : ∀ x, cvD x < 256 ^ sDT) (hcI : ∀ x, cvI x < 256 ^ sIT)
    (hr1 : ∀ a ∈ (dmLayout r c vals).elements, ∀ v ∈ a, bkD (cvD v) = v)
    (hr2 : ∀ a ∈ (dmLayout r c vals).indices, ∀ v ∈ a, bkI (cvI v) = v) :
    ∃ b, serialize t sDT sIT (convert cvD cvI (dmLayout r c vals)) = some b ∧
      (deserialize t.magic sDT sIT b).map (convert bkD bkI) = some (dmLayout r c vals) :=
  C05.typed_roundtrip t sDT sIT cvD cvI bkD bkI _ hD hI
    (dm_image_wf t sDT sIT cvD cvI r c vals (by omega) (by omega) ht hraw h0 h1 h2 hcD hcI)
    (by unfold dmLayout; repeat' split
        all_goals simp) hr1 hr2

theorem C05.csr_roundtrip (t : Tag) (sDT sIT : Nat) (cvD cvI bkD bkI : Nat → Nat) (variant : Nat) (m : Csr)
    (hD : sDT = 4 ∨ sDT = 8 ∨ sDT = 16) (hI : sIT = 4 ∨ sIT = 8)
    (ht : t.magic < 256 ^ 8 ∧ t.hashDT < 256 ^ 8 ∧ t.hashIT < 256 ^ 8)
    (hraw : rawSize sDT sIT (csrLayout variant m) + 16 < 256 ^ 8) (h0 : m.rows * m.cols < 256 ^ 8) (h1 : m.rows < 256 ^ 8) (h2 : m.cols < 256 ^ 8) (h3 : m.vals.length < 256 ^ 8)
    (hcD : ∀ x, cvD x < 256 ^ sDT) (hcI : ∀ x, cvI x < 256 ^ sIT)
    (hr1 : ∀ a ∈ (csrLayout variant m).elements, ∀ v ∈ a, bkD (cvD v) = v)
    (hr2 : ∀ a ∈ (csrLayout variant m).indices, ∀ v ∈ a, bkI (cvI v) = v) :
    ∃ b, serialize t sDT sIT (convert cvD cvI (csrLayout variant m)) = some b ∧
      (deserialize t.magic sDT sIT b).map (convert bkD bkI) = some (csrLayout variant m) :=
  C05.typed_roundtrip t sDT sIT cvD cvI bkD bkI _ hD hI
    (csr_image_wf t sDT sIT cvD cvI variant m (by omega) (by omega) ht hraw h0 h1 h2 h3 hcD hcI)
    (by unfold csrLayout; repeat' split
        all_goals simp) hr1 hr2

theorem C05.bcsr_roundtrip (t : Tag) (sDT sIT : Nat) (cvD cvI bkD bkI : Nat → Nat) (bh bw r c : Nat) (rowPtr colInd vals : List Nat)
    (hD : sDT = 4 ∨ sDT = 8 ∨ sDT = 16) (hI : sIT = 4 ∨ sIT = 8)
    (ht : t.magic < 256 ^ 8 ∧ t.hashDT < 256 ^ 8 ∧ t.hashIT < 256 ^ 8)
    (hraw : rawSize sDT sIT (bcsrLayout bh bw r c rowPtr colInd vals) + 16 < 256 ^ 8) (h0 : r * c < 256 ^ 8) (h1 : r < 256 ^ 8) (h2 : c < 256 ^ 8) (h3 : vals.length / (bh * bw) < 256 ^ 8)
    (hcD : ∀ x, cvD x < 256 ^ sDT) (hcI : ∀ x, cvI x < 256 ^ sIT)
    (hr1 : ∀ a ∈ (bcsrLayout bh bw r c rowPtr colInd vals).elements, ∀ v ∈ a, bkD (cvD v) = v)
    (hr2 : ∀ a ∈ (bcsrLayout bh bw r c rowPtr colInd vals).indices, ∀ v ∈ a, bkI (cvI v) = v) :
    ∃ b, serialize t sDT sIT (convert cvD cvI (bcsrLayout bh bw r c rowPtr colInd vals)) = some b ∧
      (deserialize t.magic sDT sIT b).map (convert bkD bkI) = some (bcsrLayout bh bw r c rowPtr colInd vals) :=
  C05.typed_roundtrip t sDT sIT cvD cvI bkD bkI _ hD hI
    (bcsr_image_wf t sDT sIT cvD cvI bh bw r c rowPtr colInd vals (by omega) (by omega) ht hraw h0 h1 h2 h3 hcD hcI)
    (by unfold bcsrLayout; repeat' split
        all_goals simp) hr1 hr2

theorem C05.banded_roundtrip (t : Tag) (sDT sIT : Nat) (cvD cvI bkD bkI : Nat → Nat) (r c : Nat) (offs vals : List Nat)
    (hD : sDT = 4 ∨ sDT = 8 ∨ sDT = 16) (hI : sIT = 4 ∨ sIT = 8)
    (ht : t.magic < 256 ^ 8 ∧ t.hashDT < 256 ^ 8 ∧ t.hashIT < 256 ^ 8)
    (hraw : rawSize sDT sIT (bmLayout r c offs vals) + 16 < 256 ^ 8) (h0 : r * c < 256 ^ 8) (h1 : r < 256 ^ 8) (h2 : c < 256 ^ 8) (h3 : bandedUsed r c offs < 256 ^ 8) (h4 : offs.length < 256 ^ 8)
    (hcD : ∀ x, cvD x < 256 ^ sDT) (hcI : ∀ x, cvI x < 256 ^ sIT)
    (hr1 : ∀ a ∈ (bmLayout r c offs vals).elements, ∀ v ∈ a, bkD (cvD v) = v)
    (hr2 : ∀ a ∈ (bmLayout r c offs vals).indices, ∀ v ∈ a, bkI (cvI v) = v) :
    ∃ b, serialize t sDT sIT (convert cvD cvI (bmLayout r c offs vals)) = some b ∧
      (deserialize t.magic sDT sIT b).map (convert bkD bkI) = some (bmLayout r c offs vals) :=
  C05.typed_roundtrip t sDT sIT cvD cvI bkD bkI _ hD hI
    (bm_image_wf t sDT sIT cvD cvI r c offs vals (by omega) (by omega) ht hraw h0 h1 h2 h3 h4 hcD hcI)
    (by unfold bmLayout; repeat' split
        all_goals simp) hr1 hr2

theorem C05.cscr_roundtrip (t : Tag) (sDT sIT : Nat) (cvD cvI bkD bkI : Nat → Nat) (r c : Nat) (rowPtr colInd vals rowNum : List Nat)
    (hD : sDT = 4 ∨ sDT = 8 ∨ sDT = 16) (hI : sIT = 4 ∨ sIT = 8)
    (ht : t.magic < 256 ^ 8 ∧ t.hashDT < 256 ^ 8 ∧ t.hashIT < 256 ^ 8)
    (hraw : rawSize sDT sIT (cscrLayout r c rowPtr colInd vals rowNum) + 16 < 256 ^ 8) (h0 : r * c < 256 ^ 8) (h1 : r < 256 ^ 8) (h2 : c < 256 ^ 8) (h3 : vals.length < 256 ^ 8) (h4 : rowNum.length < 256 ^ 8)
    (hcD : ∀ x, cvD x < 256 ^ sDT) (hcI : ∀ x, cvI x < 256 ^ sIT)
    (hr1 : ∀ a ∈ (cscrLayout r c rowPtr colInd vals rowNum).elements, ∀ v ∈ a, bkD (cvD v) = v)
    (hr2 : ∀ a ∈ (cscrLayout r c rowPtr colInd vals rowNum).indices, ∀ v ∈ a, bkI (cvI v) = v) :
    ∃ b, serialize t sDT sIT (convert cvD cvI (cscrLayout r c rowPtr colInd vals rowNum)) = some b ∧
      (deserialize t.magic sDT sIT b).map (convert bkD bkI) = some (cscrLayout r c rowPtr colInd vals rowNum) :=
  C05.typed_roundtrip t sDT sIT cvD cvI bkD bkI _ hD hI
    (cscr_image_wf t sDT sIT cvD cvI r c rowPtr colInd vals rowNum (by omega) (by omega) ht hraw h0 h1 h2 h3 h4 hcD hcI)
    (by unfold cscrLayout; repeat' split
        all_goals simp) hr1 hr2

/-! ## text modes

`pr` (number printing: `operator<<` scientific) and `rd` (`atof`) are parameters; the only assumptions about them
are that a printed number contains no blank (and no `#` for `fm_exp`).  Integer printing/parsing (`operator<<`,
`atol`), the tokenisation of the lines, the header handling and the assembly of the arrays are proved. -/

/-- **MatrixMarket round trip of `SparseMatrixCSR`.** For every well-formed CSR matrix — empty rows anywhere,
    no entries at all, any rectangular shape — reading what was written gives the same dimensions, the same
    `row_ptr` (empty rows kept), the same `col_ind`, and the values `rd (pr v)`. -/
theorem C05.mtx_roundtrip_csr {α : Type} (pr : α → String) (rd : String → α)
    (hp : ∀ v, NoBlank (pr v).toList) (rows cols : Nat) (rowPtr ci : List Nat) (vs : List α) (d : α)
    (h : CsrWF rows rowPtr ci vs d) :
    csrMtxRead rd (csrMtxWrite pr rows cols rowPtr ci vs d)
      = some (rows, cols, vs.length, rowPtr, ci, vs.map fun v => rd (pr v)) :=
  csr_mtx_roundtrip pr rd hp rows cols rowPtr ci vs d h

/-- the same with the trusted assumption in the form `rd (pr x) = round x`: values equal to printed precision,
    dimensions and pattern identical -/
theorem C05.mtx_roundtrip_csr_rounded {α : Type} (pr : α → String) (rd : String → α) (round : α → α)
    (hp : ∀ v, NoBlank (pr v).toList) (hr : ∀ x, rd (pr x) = round x)
    (rows cols : Nat) (rowPtr ci : List Nat) (vs : List α) (d : α) (h : CsrWF rows rowPtr ci vs d) :
    csrMtxRead rd (csrMtxWrite pr rows cols rowPtr ci vs d)
      = some (rows, cols, vs.length, rowPtr, ci, vs.map round) := by
  rw [csr_mtx_roundtrip pr rd hp rows cols rowPtr ci vs d h]
  simp [hr]

/-- the structural core on its own: assembling (`std::map` of `std::map`s, then the row loop) the entries that
    the writer's index loops enumerate gives the CSR arrays back -/
theorem C05.csr_assemble_entries {α : Type} (R : List (Row α)) (hs : ∀ row ∈ R, StrictCols row) (d : α) :
    csrAssemble R.length (csrEntries R.length (ptrs 0 R) (colsOf R) (valsOf R) d)
      = (ptrs 0 R, colsOf R, valsOf R) := by
  rw [csrEntries_rows]
  exact csrAssemble_entsFrom R hs

theorem C05.mtx_roundtrip_dense_vector {α : Type} (pr : α → String) (rd : String → α)
    (hp : ∀ v, NoBlank (pr v).toList) (vals : List α) :
    dvMtxRead rd (dvMtxWrite pr vals) = some (vals.map fun v => rd (pr v)) :=
  dv_mtx_roundtrip pr rd hp vals

theorem C05.exp_roundtrip_dense_vector {α : Type} (pr : α → String) (rd : String → α)
    (hp : ∀ v, NoBlank (pr v).toList) (hh : ∀ v, (pr v).toList.contains '#' = false) (vals : List α) :
    expRead rd (expWrite pr vals) = vals.map fun v => rd (pr v) :=
  exp_roundtrip pr rd hp hh vals

theorem C05.mtx_roundtrip_dense_matrix {α : Type} (pr : α → String) (rd : String → α)
    (hp : ∀ v, NoBlank (pr v).toList) (r c : Nat) (vals : List α) (hr : r ≠ 0) (hc : c ≠ 0)
    (hl : vals.length = r * c) :
    dmMtxRead rd (dmMtxWrite pr r c vals) = some (r, c, vals.map fun v => rd (pr v)) :=
  dm_mtx_roundtrip pr rd hp r c vals hr hc hl

theorem C05.mtx_roundtrip_sparse_vector {α : Type} (pr : α → String) (rd : String → α)
    (hp : ∀ v, NoBlank (pr v).toList) (size : Nat) (idx : List Nat) (vals : List α)
    (hl : idx.length = vals.length) :
    svMtxRead rd (svMtxWrite pr size idx vals) = some (size, idx, vals.map fun v => rd (pr v)) :=
  sv_mtx_roundtrip pr rd hp size idx vals hl

/-- the hypotheses are satisfiable: a 3×4 matrix with an empty middle row is well formed, and printing natural
    numbers in decimal satisfies the assumption on `pr` -/
example : CsrWF 3 [0, 2, 2, 3] [0, 3, 1] [5, 6, 7] (0 : Nat) := by
  unfold CsrWF StrictCols
  decide

example : ∀ v : Nat, NoBlank (toString v).toList := fun v => noBlank_natChars v

/-! ## the precision clause, on the decimal strings

`sci6` is `printf("%.6e")` (7 significant digits, half to even on the exact value), `parseSci` is `atof` on such
strings — the instances of `pr`/`rd` the driver runs against the real `operator<<`/`atof`.  `round7` is defined on
the numbers only (`sciDecomp`/`sciValue`), `Exact7 x` is the decidable predicate "`x` has at most 7 significant
decimal digits" (`round7 x = x`).  `DenseVectorBlocked` uses the same writers/readers on its scalar entries. -/

/-- the decimal string denotes exactly the 7-digit rounding of the value -/
theorem C05.text_rounding (x : Rat) (h : sciOK x = true) : parseSci (sci6 x) = round7 x :=
  parseSci_sci6 x h

/-- **precision clause**: a value with at most 7 significant decimal digits is read back exactly -/
theorem C05.text_precision (x : Rat) (h : Exact7 x = true) : parseSci (sci6 x) = x :=
  parseSci_sci6_exact x h

/-- a printed number never contains a blank or a `#` (the assumptions of the round-trip theorems hold for `sci6`) -/
theorem C05.sci6_token (x : Rat) : NoBlank (sci6 x).toList ∧ (sci6 x).toList.contains '#' = false :=
  ⟨noBlank_sci6 x, noHash_sci6 x⟩

theorem C05.map_exact (vs : List Rat) (h : ∀ v ∈ vs, Exact7 v = true) :
    (vs.map fun v => parseSci (sci6 v)) = vs := by
  have : ∀ v ∈ vs, (fun v => parseSci (sci6 v)) v = id v := fun v hv => parseSci_sci6_exact v (h v hv)
  rw [List.map_congr_left this, List.map_id]

/-- CSR through `fm_mtx` with the real number format: identical dimensions, pattern **and values** when every
    value has at most 7 significant decimal digits -/
theorem C05.mtx_roundtrip_csr_exact (rows cols : Nat) (rowPtr ci : List Nat) (vs : List Rat) (d : Rat)
    (h : CsrWF rows rowPtr ci vs d) (hx : ∀ v ∈ vs, Exact7 v = true) :
    csrMtxRead parseSci (csrMtxWrite sci6 rows cols rowPtr ci vs d) = some (rows, cols, vs.length, rowPtr, ci, vs) := by
  rw [csr_mtx_roundtrip sci6 parseSci noBlank_sci6 rows cols rowPtr ci vs d h, C05.map_exact vs hx]

/-- … and to printed precision in general: every value is replaced by its 7-digit rounding, nothing else changes -/
theorem C05.mtx_roundtrip_csr_round7 (rows cols : Nat) (rowPtr ci : List Nat) (vs : List Rat) (d : Rat)
    (h : CsrWF rows rowPtr ci vs d) (hx : ∀ v ∈ vs, sciOK v = true) :
    csrMtxRead parseSci (csrMtxWrite sci6 rows cols rowPtr ci vs d)
      = some (rows, cols, vs.length, rowPtr, ci, vs.map round7) := by
  rw [csr_mtx_roundtrip sci6 parseSci noBlank_sci6 rows cols rowPtr ci vs d h]
  have : ∀ v ∈ vs, (fun v => parseSci (sci6 v)) v = round7 v := fun v hv => parseSci_sci6 v (hx v hv)
  rw [List.map_congr_left this]

theorem C05.mtx_roundtrip_dense_vector_exact (vs : List Rat) (hx : ∀ v ∈ vs, Exact7 v = true) :
    dvMtxRead parseSci (dvMtxWrite sci6 vs) = some vs := by
  rw [dv_mtx_roundtrip sci6 parseSci noBlank_sci6 vs, C05.map_exact vs hx]

theorem C05.exp_roundtrip_dense_vector_exact (vs : List Rat) (hx : ∀ v ∈ vs, Exact7 v = true) :
    expRead parseSci (expWrite sci6 vs) = vs := by
  rw [exp_roundtrip sci6 parseSci noBlank_sci6 noHash_sci6 vs, C05.map_exact vs hx]

theorem C05.mtx_roundtrip_dense_matrix_exact (r c : Nat) (vs : List Rat) (hr : r ≠ 0) (hc : c ≠ 0)
    (hl : vs.length = r * c) (hx : ∀ v ∈ vs, Exact7 v = true) :
    dmMtxRead parseSci (dmMtxWrite sci6 r c vs) = some (r, c, vs) := by
  rw [dm_mtx_roundtrip sci6 parseSci noBlank_sci6 r c vs hr hc hl, C05.map_exact vs hx]

theorem C05.mtx_roundtrip_sparse_vector_exact (size : Nat) (idx : List Nat) (vs : List Rat)
    (hl : idx.length = vs.length) (hx : ∀ v ∈ vs, Exact7 v = true) :
    svMtxRead parseSci (svMtxWrite sci6 size idx vs) = some (size, idx, vs) := by
  rw [sv_mtx_roundtrip sci6 parseSci noBlank_sci6 size idx vs hl, C05.map_exact vs hx]

/-- non-vacuity: dyadic and decimal values with at most 7 significant digits are `Exact7`
    (1/1024 = 9.765625e-04 has exactly 7); 1/4096 (9 digits) and 1/3 are not -/
example : Exact7 (3 / 2) = true ∧ Exact7 (-9999 / 8) = true ∧ Exact7 999999 = true ∧ Exact7 0 = true
    ∧ Exact7 (1 / 1024) = true ∧ Exact7 (1 / 4096) = false ∧ Exact7 (1 / 3) = false := by decide +kernel
