import FeatModel.Lemmas.C03Merge
import FeatModel.Lemmas.C03Ops
import FeatModel.Lemmas.C03Bridge
/-!
# C03 — matrix algebra operations equal their dense definitions (property theorems)

All statements are about the model functions that `drv_c03` executes (`FeatModel.LA.MatAlg.mergeRow`, `csrAddMatMat`,
`csrAddDoubleMatMat`, `csrAddDoubleDiag`, `scaleRowsK`, `lumpRow`, …); the correspondence run ties those to
`SparseMatrixCSR::add_mat_mat_product` / `add_double_mat_product` and the `Arch::*_generic` kernels.

`csrRow A i` is the list of stored `(column, value)` pairs of row `i`, `rowVal r j` its dense meaning (the sum of the
stored values at column `j`), `rowCols r` its pattern, `SortedCols r` = strictly increasing column indices.
A product result `R` is the list of the new rows of `X`.  Sums over the stored entries of a row of `D` (and `A`) are the
dense sums `Σ_k D_ik …` because entries that are not stored are zero.
-/
open FeatModel.LA FeatModel.LA.MatAlg

/-! ## the sorted-merge loop ("sparse axpy of row B_l onto row X_i") -/

/-- the merge never changes the pattern of `X_i` (any update function: scalar or block arithmetic) -/
theorem C03.merge_pattern_preserved {β γ : Type} (allow : Bool) (f : β → γ → β) (xs : Row β) (bs : Row γ) (r : Row β)
    (h : mergeRow allow f xs bs = .ok r) : rowCols r = rowCols xs :=
  mergeRow_cols allow f xs bs r h

/-- **merge_spec**: whenever the loop returns, `X_ij` has received `omega * B_lj` exactly at the columns `j` that exist
    in `X_i`; entries of `B_l` without a partner are dropped (this is the `allow_incomplete` semantics), nothing else
    is touched.  All branch orders of the `while` are covered (X richer / poorer than B, either row empty). -/
theorem C03.merge_spec {α : Type} [CommRing α] (allow : Bool) (omega : α) (xs bs : Row α)
    (hx : SortedCols xs) (hb : SortedCols bs) (r : Row α) (h : mergeRow allow (updS omega) xs bs = .ok r) (j : Nat) :
    rowVal r j = rowVal xs j + omega * (if j ∈ rowCols xs then rowVal bs j else 0) :=
  mergeRow_spec allow omega xs bs hx hb r h j

/-- a complete pattern is never reported, whatever the flag -/
theorem C03.merge_complete {β γ : Type} (allow : Bool) (f : β → γ → β) (xs : Row β) (bs : Row γ)
    (hx : SortedCols xs) (hb : SortedCols bs) (hsub : ∀ c ∈ rowCols bs, c ∈ rowCols xs) :
    ∃ r, mergeRow allow f xs bs = .ok r :=
  mergeRow_complete_ok allow f xs bs hx hb hsub

/-- **merge_incomplete_reported**: a column of `B_l` that `X_i` lacks, `allow_incomplete = false` ⇒ the loop aborts
    with "Incomplete output matrix structure" (no sortedness needed) -/
theorem C03.merge_incomplete_reported {β γ : Type} (f : β → γ → β) (xs : Row β) (bs : Row γ)
    (hmiss : ∃ c ∈ rowCols bs, c ∉ rowCols xs) : mergeRow false f xs bs = .error .incomplete := by
  obtain ⟨c, hc, hn⟩ := hmiss
  cases h : mergeRow false f xs bs with
  | ok r => exact absurd (mergeRow_strict_ok_subset f xs bs r h c hc) hn
  | error e => rw [mergeRow_error_incomplete false f xs bs e h]

/-- **never silently wrong**: with `allow_incomplete = false` the loop either aborts or has added the *whole* row
    `omega * B_l` onto `X_i` -/
theorem C03.merge_never_silently_wrong {α : Type} [CommRing α] (omega : α) (xs bs : Row α)
    (hx : SortedCols xs) (hb : SortedCols bs) :
    mergeRow false (updS omega) xs bs = .error .incomplete ∨
    ∃ r, mergeRow false (updS omega) xs bs = .ok r ∧ rowCols r = rowCols xs ∧
      ∀ j, rowVal r j = rowVal xs j + omega * rowVal bs j := by
  cases h : mergeRow false (updS omega) xs bs with
  | error e => left; rw [mergeRow_error_incomplete false _ xs bs e h]
  | ok r => right; exact ⟨r, rfl, mergeRow_cols false _ xs bs r h, mergeRow_spec_strict omega xs bs hx hb r h⟩

/-- with `allow_incomplete = true` the loop never aborts -/
theorem C03.merge_allow_never_aborts {β γ : Type} (f : β → γ → β) (xs : Row β) (bs : Row γ) :
    ∃ r, mergeRow true f xs bs = .ok r :=
  mergeRow_allow_ok f xs bs

/-! ## the three CSR products -/

/-- `X.add_mat_mat_product(D, B, alpha, allow)`: when the call returns, row `i` of `X` keeps its pattern and
    `X'_ij = X_ij + Σ_k alpha·D_ik·B_kj` for `j` in the pattern of `X_i` (product entries outside the pattern are dropped) -/
theorem C03.addMatMat_spec {α : Type} [CommRing α] (allow : Bool) (alpha : α) (X D B : Csr α)
    (hX : ∀ i, SortedCols (csrRow X i)) (hB : ∀ k, SortedCols (csrRow B k))
    (R : List (Row α)) (h : csrAddMatMat allow alpha X D B = .ok R) :
    R.length = X.rows ∧ ∀ i, i < X.rows → ∃ r, R[i]? = some r ∧ rowCols r = rowCols (csrRow X i) ∧
      ∀ j, rowVal r j = rowVal (csrRow X i) j + ((csrRow D i).map fun kd =>
        alpha * kd.2 * (if j ∈ rowCols (csrRow X i) then rowVal (csrRow B kd.1) j else 0)).sum := by
  rw [csrAddMatMat_eq] at h
  split at h
  · simp at h
  · have := products_spec allow X.rows (csrRow X) (wMM alpha D B) hX (wMM_sorted alpha D B hB) R h
    simpa only [wMM, List.map_map, Function.comp_def] using this

/-- `X.add_double_mat_product(D, A, B, alpha, allow)` with a CSR middle factor:
    `X'_ij = X_ij + Σ_k Σ_l alpha·D_ik·A_kl·B_lj` on the pattern of `X` -/
theorem C03.addDoubleMatMat_spec {α : Type} [CommRing α] (allow : Bool) (alpha : α) (X D A B : Csr α)
    (hX : ∀ i, SortedCols (csrRow X i)) (hB : ∀ k, SortedCols (csrRow B k))
    (R : List (Row α)) (h : csrAddDoubleMatMat allow alpha X D A B = .ok R) :
    R.length = X.rows ∧ ∀ i, i < X.rows → ∃ r, R[i]? = some r ∧ rowCols r = rowCols (csrRow X i) ∧
      ∀ j, rowVal r j = rowVal (csrRow X i) j +
        (((csrRow D i).flatMap fun kd => (csrRow A kd.1).map fun la => (alpha * kd.2 * la.2, csrRow B la.1)).map fun w =>
          w.1 * (if j ∈ rowCols (csrRow X i) then rowVal w.2 j else 0)).sum := by
  rw [csrAddDoubleMatMat_eq] at h
  split at h
  · simp at h
  · exact products_spec allow X.rows (csrRow X) (wDMM alpha D A B) hX (wDMM_sorted alpha D A B hB) R h

/-- `X.add_double_mat_product(D, a, B, alpha, allow)` with a diagonal middle factor:
    `X'_ij = X_ij + Σ_k alpha·D_ik·a_k·B_kj` on the pattern of `X` -/
theorem C03.addDoubleDiag_spec {α : Type} [CommRing α] (allow : Bool) (alpha : α) (X D : Csr α) (a : Array α) (B : Csr α)
    (hX : ∀ i, SortedCols (csrRow X i)) (hB : ∀ k, SortedCols (csrRow B k))
    (R : List (Row α)) (h : csrAddDoubleDiag allow alpha X D a B = .ok R) :
    R.length = X.rows ∧ ∀ i, i < X.rows → ∃ r, R[i]? = some r ∧ rowCols r = rowCols (csrRow X i) ∧
      ∀ j, rowVal r j = rowVal (csrRow X i) j + ((csrRow D i).map fun kd =>
        alpha * kd.2 * a.getD kd.1 0 * (if j ∈ rowCols (csrRow X i) then rowVal (csrRow B kd.1) j else 0)).sum := by
  rw [csrAddDoubleDiag_eq] at h
  split at h
  · simp at h
  · have := products_spec allow X.rows (csrRow X) (wDGM alpha D a B) hX (wDGM_sorted alpha D a B hB) R h
    simpa only [wDGM, List.map_map, Function.comp_def] using this

/-- **never silently wrong** (matrix level, `allow_incomplete = false`): `add_mat_mat_product` either aborts or has
    added the *unrestricted* product `alpha·D·B` (every product entry found its place in `X`) -/
theorem C03.addMatMat_never_silently_wrong {α : Type} [CommRing α] (alpha : α) (X D B : Csr α)
    (hX : ∀ i, SortedCols (csrRow X i)) (hB : ∀ k, SortedCols (csrRow B k)) :
    (∃ e, csrAddMatMat false alpha X D B = .error e) ∨
    ∃ R, csrAddMatMat false alpha X D B = .ok R ∧ R.length = X.rows ∧
      ∀ i, i < X.rows → ∃ r, R[i]? = some r ∧ rowCols r = rowCols (csrRow X i) ∧
        ∀ j, rowVal r j = rowVal (csrRow X i) j +
          ((csrRow D i).map fun kd => alpha * kd.2 * rowVal (csrRow B kd.1) j).sum := by
  cases h : csrAddMatMat false alpha X D B with
  | error e => exact Or.inl ⟨e, rfl⟩
  | ok R =>
    refine Or.inr ⟨R, rfl, ?_⟩
    rw [csrAddMatMat_eq] at h
    split at h
    · simp at h
    · have := products_spec_strict X.rows (csrRow X) (wMM alpha D B) hX (wMM_sorted alpha D B hB) R h
      simpa only [wMM, List.map_map, Function.comp_def] using this

/-- the same for the double product with a CSR middle factor -/
theorem C03.addDoubleMatMat_never_silently_wrong {α : Type} [CommRing α] (alpha : α) (X D A B : Csr α)
    (hX : ∀ i, SortedCols (csrRow X i)) (hB : ∀ k, SortedCols (csrRow B k)) :
    (∃ e, csrAddDoubleMatMat false alpha X D A B = .error e) ∨
    ∃ R, csrAddDoubleMatMat false alpha X D A B = .ok R ∧ R.length = X.rows ∧
      ∀ i, i < X.rows → ∃ r, R[i]? = some r ∧ rowCols r = rowCols (csrRow X i) ∧
        ∀ j, rowVal r j = rowVal (csrRow X i) j +
          (((csrRow D i).flatMap fun kd => (csrRow A kd.1).map fun la => (alpha * kd.2 * la.2, csrRow B la.1)).map
            fun w => w.1 * rowVal w.2 j).sum := by
  cases h : csrAddDoubleMatMat false alpha X D A B with
  | error e => exact Or.inl ⟨e, rfl⟩
  | ok R =>
    refine Or.inr ⟨R, rfl, ?_⟩
    rw [csrAddDoubleMatMat_eq] at h
    split at h
    · simp at h
    · exact products_spec_strict X.rows (csrRow X) (wDMM alpha D A B) hX (wDMM_sorted alpha D A B hB) R h

/-- the same for the double product with a diagonal middle factor -/
theorem C03.addDoubleDiag_never_silently_wrong {α : Type} [CommRing α] (alpha : α) (X D : Csr α) (a : Array α) (B : Csr α)
    (hX : ∀ i, SortedCols (csrRow X i)) (hB : ∀ k, SortedCols (csrRow B k)) :
    (∃ e, csrAddDoubleDiag false alpha X D a B = .error e) ∨
    ∃ R, csrAddDoubleDiag false alpha X D a B = .ok R ∧ R.length = X.rows ∧
      ∀ i, i < X.rows → ∃ r, R[i]? = some r ∧ rowCols r = rowCols (csrRow X i) ∧
        ∀ j, rowVal r j = rowVal (csrRow X i) j +
          ((csrRow D i).map fun kd => alpha * kd.2 * a.getD kd.1 0 * rowVal (csrRow B kd.1) j).sum := by
  cases h : csrAddDoubleDiag false alpha X D a B with
  | error e => exact Or.inl ⟨e, rfl⟩
  | ok R =>
    refine Or.inr ⟨R, rfl, ?_⟩
    rw [csrAddDoubleDiag_eq] at h
    split at h
    · simp at h
    · have := products_spec_strict X.rows (csrRow X) (wDGM alpha D a B) hX (wDGM_sorted alpha D a B hB) R h
      simpa only [wDGM, List.map_map, Function.comp_def] using this

/-- a required-pattern violation is reported: some stored `D_ik` and some column of row `k` of `B` that row `i` of
    `X` lacks, `allow_incomplete = false` ⇒ `add_mat_mat_product` aborts (whatever the values, even for `alpha = 0`) -/
theorem C03.addMatMat_incomplete_reported {α : Type} [CommRing α] (alpha : α) (X D B : Csr α)
    (i : Nat) (hi : i < X.rows) (kd : Nat × α) (hk : kd ∈ csrRow D i) (c : Nat)
    (hc : c ∈ rowCols (csrRow B kd.1)) (hmiss : c ∉ rowCols (csrRow X i)) :
    ∃ e, csrAddMatMat false alpha X D B = .error e := by
  unfold csrAddMatMat
  split
  · exact ⟨_, rfl⟩
  · exact products_reported X.rows (csrRow X) _ i hi (updS (alpha * kd.2), csrRow B kd.1)
      (List.mem_map.mpr ⟨kd, hk, rfl⟩) c hc hmiss

/-- dimension mismatches are reported (the `XASSERT`s at the top of the member) -/
theorem C03.addMatMat_dims_reported {α : Type} [CommRing α] (allow : Bool) (alpha : α) (X D B : Csr α)
    (h : X.rows ≠ D.rows ∨ D.cols ≠ B.rows ∨ B.cols ≠ X.cols) : csrAddMatMat allow alpha X D B = .error .dims := by
  unfold csrAddMatMat
  rw [if_pos]
  rcases h with h | h | h <;> simp [h]

/-- compatible dimensions and `allow_incomplete = true`: the call always returns -/
theorem C03.addMatMat_allow_returns {α : Type} [CommRing α] (alpha : α) (X D B : Csr α)
    (h1 : X.rows = D.rows) (h2 : D.cols = B.rows) (h3 : B.cols = X.cols) :
    ∃ R, csrAddMatMat true alpha X D B = .ok R := by
  unfold csrAddMatMat
  rw [if_neg (by simp [h1, h2, h3])]
  exact products_allow_ok X.rows (csrRow X) _

/-- compatible dimensions and a complete pattern (every structural product entry exists in `X`): the call returns,
    whatever the flag -/
theorem C03.addMatMat_complete_returns {α : Type} [CommRing α] (allow : Bool) (alpha : α) (X D B : Csr α)
    (h1 : X.rows = D.rows) (h2 : D.cols = B.rows) (h3 : B.cols = X.cols)
    (hX : ∀ i, SortedCols (csrRow X i)) (hB : ∀ k, SortedCols (csrRow B k))
    (hsub : ∀ i, i < X.rows → ∀ kd ∈ csrRow D i, ∀ c ∈ rowCols (csrRow B kd.1), c ∈ rowCols (csrRow X i)) :
    ∃ R, csrAddMatMat allow alpha X D B = .ok R := by
  unfold csrAddMatMat
  rw [if_neg (by simp [h1, h2, h3])]
  refine products_complete_ok allow X.rows (csrRow X) _ hX ?_ ?_
  · intro i t ht
    obtain ⟨kd, _, rfl⟩ := List.mem_map.mp ht
    exact hB _
  · intro i hi t ht c hc
    obtain ⟨kd, hk, rfl⟩ := List.mem_map.mp ht
    exact hsub i hi kd hk c hc

/-! ## row-loop kernels -/

/-- `scale_rows`: `this_ij = x_ij · s_i` when `x` has the layout of `this` (e.g. `x` is `this`) -/
theorem C03.scaleRows_dense {α : Type} [CommRing α] (T X : Csr α) (s : Array α)
    (hp : X.rowPtr = T.rowPtr) (hc : X.colInd = T.colInd) :
    scaleRowsK T X.val s = ((List.range T.rows).map fun i => (csrRow X i).map fun p => (p.1, p.2 * s.getD i 0)) ∧
    ∀ i j, rowVal ((csrRow X i).map fun p => (p.1, p.2 * s.getD i 0)) j = rowVal (csrRow X i) j * s.getD i 0 :=
  ⟨scaleRowsK_eq T X s hp hc, fun _ j => rowVal_map_mul _ _ j⟩

/-- `scale_cols`: `this_ij = x_ij · s_j` -/
theorem C03.scaleCols_dense {α : Type} [CommRing α] (T X : Csr α) (s : Array α)
    (hp : X.rowPtr = T.rowPtr) (hc : X.colInd = T.colInd) :
    scaleColsK T X.val s = ((List.range T.rows).map fun i => (csrRow X i).map fun p => (p.1, p.2 * s.getD p.1 0)) ∧
    ∀ i j, rowVal ((csrRow X i).map fun p => (p.1, p.2 * s.getD p.1 0)) j = rowVal (csrRow X i) j * s.getD j 0 :=
  ⟨scaleColsK_eq T X s hp hc, fun _ j => rowVal_map_mul_col _ (fun c => s.getD c 0) j⟩

/-- `lump_rows`: the sum of the stored values of the row (= the dense row sum) -/
theorem C03.lump_dense {α : Type} [CommRing α] (A : Csr α) :
    csrLump A = (List.range A.rows).map fun i => ((csrRow A i).map Prod.snd).sum := by
  simp only [csrLump, csrRows, List.map_map]
  exact List.map_congr_left (fun i _ => lumpRow_eq_sum _)

/-- `row_norm2sqr`: the sum of the squares of the stored values of the row; `row_norm2` is its square root -/
theorem C03.rowNorm2Sqr_dense {α : Type} [CommRing α] (sqrt : α → α) (A : Csr α) :
    csrRowNorm2Sqr A = ((List.range A.rows).map fun i => ((csrRow A i).map fun p => p.2 * p.2).sum) ∧
    csrRowNorm2 sqrt A = (csrRowNorm2Sqr A).map sqrt := by
  refine ⟨?_, by simp [csrRowNorm2, csrRowNorm2Sqr, List.map_map]⟩
  simp only [csrRowNorm2Sqr, csrRows, List.map_map]
  exact List.map_congr_left (fun i _ => rowNormSq_eq_sum _)

/-- `Arch::Diagonal::csr_generic` on one row: the result is the storage position of the *first* entry whose column
    equals the row number, or `row_ptr[rows]` when there is none (then `extract_diag` returns 0) -/
theorem C03.diagIndex_spec (rowBegin notFound row : Nat) (cols : List Nat) :
    (row ∉ cols ∧ diagIndexRow rowBegin notFound row cols 0 = notFound) ∨
    (∃ t, t < cols.length ∧ cols[t]? = some row ∧ (∀ u, u < t → cols[u]? ≠ some row) ∧
      diagIndexRow rowBegin notFound row cols 0 = rowBegin + t) := by
  simpa using diagIndexRow_spec rowBegin notFound row cols 0

/-- `shrink(eps)`: every row keeps exactly its entries with `¬ |v| < eps`, in their order -/
theorem C03.shrink_spec {α : Type} [LT α] [DecidableLT α] [Neg α] [Zero α] (eps : α) (r : Row α) :
    (shrinkRow eps r).Sublist r ∧ ∀ p, p ∈ shrinkRow eps r ↔ p ∈ r ∧ ¬ (FeatModel.Vec.absK p.2 < eps) :=
  ⟨shrinkRow_sublist eps r, mem_shrinkRow eps r⟩

/-! ## the same dense meaning as C01: `rowVal (csrRow A i) j = Csr.entry A i j` -/

/-- bridge to the shared dense meaning of `Model/LA/Csr.lean` (the one the C01 theorems speak about) -/
theorem C03.rowVal_eq_entry {α : Type} [CommRing α] (A : Csr α) (hA : A.wf = true) (i : Nat) (hi : i < A.rows) (j : Nat) :
    rowVal (csrRow A i) j = A.entry i j :=
  rowVal_csrRow_eq_entry ((Csr.wf_iff A).mp hA) hi j

/-- `add_mat_mat_product` in terms of `Csr.entry`: `X'_ij = ⟦X⟧_ij + Σ_{stored D_ik} alpha·D_ik·⟦B⟧_kj` on the pattern of X -/
theorem C03.addMatMat_entry {α : Type} [CommRing α] (allow : Bool) (alpha : α) (X D B : Csr α)
    (hXw : X.wf = true) (hDw : D.wf = true) (hBw : B.wf = true)
    (hX : ∀ i, SortedCols (csrRow X i)) (hB : ∀ k, SortedCols (csrRow B k))
    (R : List (Row α)) (h : csrAddMatMat allow alpha X D B = .ok R) :
    R.length = X.rows ∧ ∀ i, i < X.rows → ∃ r, R[i]? = some r ∧ rowCols r = rowCols (csrRow X i) ∧
      ∀ j, rowVal r j = X.entry i j + ((csrRow D i).map fun kd =>
        alpha * kd.2 * (if j ∈ rowCols (csrRow X i) then B.entry kd.1 j else 0)).sum := by
  obtain ⟨hl, hr⟩ := C03.addMatMat_spec allow alpha X D B hX hB R h
  have hdims : X.rows = D.rows ∧ D.cols = B.rows := by
    unfold csrAddMatMat at h
    split at h
    · simp at h
    · next hc => simp only [Bool.or_eq_true, bne_iff_ne, not_or, ne_eq, not_not] at hc; exact ⟨hc.1.1, hc.1.2⟩
  refine ⟨hl, fun i hi => ?_⟩
  obtain ⟨r, h1, h2, h3⟩ := hr i hi
  refine ⟨r, h1, h2, fun j => ?_⟩
  rw [h3 j, rowVal_csrRow_eq_entry ((Csr.wf_iff X).mp hXw) hi j]
  congr 2
  apply List.map_congr_left
  intro kd hk
  have hlt : kd.1 < B.rows := by
    rw [← hdims.2]; exact mem_csrRow_col_lt ((Csr.wf_iff D).mp hDw) (by rw [← hdims.1]; exact hi) hk
  rw [rowVal_csrRow_eq_entry ((Csr.wf_iff B).mp hBw) hlt j]

/-! ## the two kernels repaired after this check found them (formerly c03-edge:F1 / F2) -/

/-- `row_norm2sqr(row_norms, scal)` (CSR): the documented scaled row norm `Σ_j scal_j·a_ij²`, as a sum over the stored
    entries of the row (entries that are not stored contribute 0) -/
theorem C03.rowNorm2SqrScaled_spec {α : Type} [CommRing α] (A : Csr α) (scal : Array α) :
    csrRowNorm2SqrScaled A scal =
      (List.range A.rows).map fun i => ((csrRow A i).map fun p => scal.getD p.1 0 * (p.2 * p.2)).sum := by
  unfold csrRowNorm2SqrScaled
  exact List.map_congr_left (fun i _ => by
    rw [foldl_add_eq_sum (fun (p : Nat × α) => scal.getD p.1 0 * (p.2 * p.2)) (csrRow A i) 0, zero_add])

/-- `row_norm2sqr` (BCSR): scalar row `i` of block row `row` = the sum of the squares of row `i` of every stored block -/
theorem C03.bcsrRowNorm2Sqr_spec {α : Type} [CommRing α] (A : Bcsr α) :
    bcsrRowNorm2Sqr A none = (List.range A.rows).flatMap fun row => (List.range A.bh).map fun i =>
      ((bcsrRow A row).map fun p =>
        ((List.range A.bw).map fun j => p.2.getD (i * A.bw + j) 0 * p.2.getD (i * A.bw + j) 0).sum).sum := by
  unfold bcsrRowNorm2Sqr
  simp only [foldl_add_eq_sum, zero_add]

/-- `row_norm2` (BCSR) = the square root (the harness and the driver use the same `qsqrt`) of the row's sum of
    squares, taken once per scalar row -/
theorem C03.bcsrRowNorm2_spec {α : Type} [CommRing α] (sqrt : α → α) (A : Bcsr α) :
    bcsrRowNorm2 sqrt A = (List.range A.rows).flatMap fun row => (List.range A.bh).map fun i =>
      sqrt ((bcsrRow A row).map fun p =>
        ((List.range A.bw).map fun j => p.2.getD (i * A.bw + j) 0 * p.2.getD (i * A.bw + j) 0).sum).sum := by
  unfold bcsrRowNorm2
  rw [C03.bcsrRowNorm2Sqr_spec]
  simp [List.map_flatMap, List.map_map, Function.comp_def]

/-! ## the hypotheses are satisfiable by non-trivial values -/

example : SortedCols ([(0, (1 : Int)), (2, 5), (3, 7)] : Row Int) := by simp [SortedCols, rowCols]
example : mergeRow true (updS (2 : Int)) [(0, 1), (2, 5), (3, 7)] [(1, 10), (2, 20), (4, 30)]
    = .ok [(0, 1), (2, 45), (3, 7)] := by simp [mergeRow, updS]
example : mergeRow false (updS (2 : Int)) [(0, 1), (2, 5), (3, 7)] [(1, 10), (2, 20)] = .error .incomplete := by
  simp [mergeRow]
example : mergeRow false (updS (2 : Int)) [(0, 1), (2, 5), (3, 7)] [(2, 20), (3, 1)] = .ok [(0, 1), (2, 45), (3, 9)] := by
  simp [mergeRow, updS]
