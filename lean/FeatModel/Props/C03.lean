import FeatModel.Lemmas.C03Merge
import FeatModel.Lemmas.C03Ops
import FeatModel.Lemmas.C03Bridge
import FeatModel.Lemmas.C03Bcsr
import FeatModel.Lemmas.C03Diag
import FeatModel.Lemmas.C03Arg
import FeatModel.Lemmas.C03Sqrt
import FeatModel.Lemmas.C03Into
/-!
# C03 — matrix algebra operations equal their dense definitions (property theorems)

All statements are about the model functions that `drv_c03` executes (`FeatModel.LA.MatAlg.mergeRow`, `csrAddMatMat`,
`csrAddDoubleMatMat`, `csrAddDoubleDiag`, `scaleRowsK`, `lumpRow`, …); the correspondence run ties those to
`SparseMatrixCSR::add_mat_mat_product` / `add_double_mat_product` and the `Arch::*_generic` kernels.

`csrRow A i` is the list of stored `(column, value)` pairs of row `i`, `rowVal r j` its dense meaning (the sum of the
stored values at column `j`), `rowCols r` its pattern, `SortedCols r` = strictly increasing column indices.
A product result `R` is the list of the new rows of `X`.  Sums over the stored entries of a row of `D` (and `A`) are the
dense sums `Σ_k D_ik …` because entries that are not stored are zero.

**What is unbounded here and bounded in the C++.**  Every index, size and counter of the model is an unbounded `Nat`
and every scalar an exact field element, whereas the code uses `Index` (64 bit), the template index type `IT_`
(`unsigned int` or `unsigned long`: row pointers, column indices, the loop variables `i, ik, kl, ij, lj` of the three
products, `shrink`'s per-row counters `std::vector<IT_>`, the diagonal positions `IT_(col)`), `int` block sizes and
loop variables in the BCSR kernels, `Tiny::Matrix` blocks of fixed size, and `MemoryPool` allocations rounded up to
multiples of four elements.  The anchored kernels contain no narrower types, no unrolled/tiled loops with remainder
handling, no scratch arrays of fixed size and no size thresholds (re-read for the boundary-size round), so none of these
is visible to the theorems; what ties the unbounded model to the bounded types is the correspondence stream
`boundary-sizes` of `checks/props/c03.py`: rows, row lengths (> 255 entries per row), column indices and storage
positions just below, at and above 2^7, 2^8, 1000 (thorough: 2^15, 2^16, at `IT_ = unsigned int`) and all residues mod 4,
with the extreme values, ties, diagonal entries, dropped entries and the missing product column at the high end of the
range, compared with this model and with the independent oracle.

**What is NOT proved (kept current).**  (1) The two BCSR products are proved at block level only (value of every block
as the fold of `((D_ik·A_kl)·α)·B_lc` in loop order, pattern preserved, reported/never-silently-wrong); there is no
`Bcsr.entry`-level Σ formula (needs `blockMul` = matrix product, zero-block and block-length lemmas).  (2) A product
returns the list `R` of new rows; no theorem rebuilds a `Csr` container from `R` (its layout arrays are those of `X`,
its dense rows are `rowVal R[i]`), so "the result is a container with valid layout" is observed by the correspondence
(value array compared position by position) rather than proved.  (3) BCSR `axpy`/`scale`/`scale_rows`/`scale_cols`/`lump`/
row norms are proved on the pod array / block rows, not restated over `Bcsr.entry`; only BCSR `extract_diag` is.
(4) `shrink` is proved per row (`shrink_spec`); the rebuilt row-pointer array (`rowPtrOf`) and the entry-free result
container are correspondence-only.  (5) Floating point: exact arithmetic only; `fp-norms` (norms at double against an
a-priori bound) is supporting evidence.  (6) Entry-free operands (null arrays, KNOWN_FINDINGS c03-edge:F3) are outside
the model's faithful range: the model returns the zero results, the code crashes; `max/min(_abs)_element` of a matrix
without stored values has no result in the model (`none`).  (7) Sizes ≥ 2^32 (`IT_ = unsigned int` overflow) are not
generated.  Hypotheses that remain: `wf` and `sortedRows` (decidable; C02 proves them for every conversion path; the
generator's oracle asserts them for every case), equal layouts for axpy/scale/scale_rows/scale_cols (the members check
only rows, columns and nnz).
-/
open FeatModel.LA FeatModel.LA.MatAlg FeatModel.Vec

/-! ## the sorted-merge loop ("sparse axpy of row B_l onto row X_i") -/

/-- the merge never changes the pattern of `X_i` (any update function: scalar or block arithmetic) -/
theorem C03.merge_pattern_preserved {β γ : Type} (allow : Bool) (f : β → γ → β) (xs : Row β) (bs : Row γ) (r : Row β)
    (h : mergeRow allow f xs bs = .ok r) : rowCols r = rowCols xs :=
  mergeRow_cols allow f xs bs r h

/-- **merge_spec**: whenever the loop returns, `X_ij` has received `omega * B_lj` exactly at the columns `j` that exist
    in `X_i`; entries of `B_l` without a partner are dropped (this is the `allow_incomplete` semantics), nothing else
    is touched.  All branch orders of the `while` are covered (X richer / poorer than B, either row empty). -/
theorem C03.merge_spec {α : Type} [CommRing α] (allow : Bool) (omega : α) (xs bs : Row α)
    (hx : SortedCols xs) (hb : SortedCols bs) (r : Row α) (h : mergeRow allow (updS omega) xs bs = .ok r) (j : Nat) :
    rowVal r j = rowVal xs j + omega * (if j ∈ rowCols xs then rowVal bs j else 0) :=
  mergeRow_spec allow omega xs bs hx hb r h j

/-- a complete pattern is never reported, whatever the flag -/
theorem C03.merge_complete {β γ : Type} (allow : Bool) (f : β → γ → β) (xs : Row β) (bs : Row γ)
    (hx : SortedCols xs) (hb : SortedCols bs) (hsub : ∀ c ∈ rowCols bs, c ∈ rowCols xs) :
    ∃ r, mergeRow allow f xs bs = .ok r :=
  mergeRow_complete_ok allow f xs bs hx hb hsub

/-- **merge_incomplete_reported**: a column of `B_l` that `X_i` lacks, `allow_incomplete = false` ⇒ the loop aborts
    with "Incomplete output matrix structure" (no sortedness needed) -/
theorem C03.merge_incomplete_reported {β γ : Type} (f : β → γ → β) (xs : Row β) (bs : Row γ)
    (hmiss : ∃ c ∈ rowCols bs, c ∉ rowCols xs) : mergeRow false f xs bs = .error .incomplete := by
  obtain ⟨c, hc, hn⟩ := hmiss
  cases h : mergeRow false f xs bs with
  | ok r => exact absurd (mergeRow_strict_ok_subset f xs bs r h c hc) hn
  | error e => rw [mergeRow_error_incomplete false f xs bs e h]

/-- **never silently wrong**: with `allow_incomplete = false` the loop either aborts or has added the *whole* row
    `omega * B_l` onto `X_i` -/
theorem C03.merge_never_silently_wrong {α : Type} [CommRing α] (omega : α) (xs bs : Row α)
    (hx : SortedCols xs) (hb : SortedCols bs) :
    mergeRow false (updS omega) xs bs = .error .incomplete ∨
    ∃ r, mergeRow false (updS omega) xs bs = .ok r ∧ rowCols r = rowCols xs ∧
      ∀ j, rowVal r j = rowVal xs j + omega * rowVal bs j := by
  cases h : mergeRow false (updS omega) xs bs with
  | error e => left; rw [mergeRow_error_incomplete false _ xs bs e h]
  | ok r => right; exact ⟨r, rfl, mergeRow_cols false _ xs bs r h, mergeRow_spec_strict omega xs bs hx hb r h⟩

/-- with `allow_incomplete = true` the loop never aborts -/
theorem C03.merge_allow_never_aborts {β γ : Type} (f : β → γ → β) (xs : Row β) (bs : Row γ) :
    ∃ r, mergeRow true f xs bs = .ok r :=
  mergeRow_allow_ok f xs bs

/-! ## the three CSR products -/

/-- `X.add_mat_mat_product(D, B, alpha, allow)`: when the call returns, row `i` of `X` keeps its pattern and
    `X'_ij = X_ij + Σ_k alpha·D_ik·B_kj` for `j` in the pattern of `X_i` (product entries outside the pattern are dropped) -/
theorem C03.addMatMat_spec {α : Type} [CommRing α] (allow : Bool) (alpha : α) (X D B : Csr α)
    (hX : ∀ i, SortedCols (csrRow X i)) (hB : ∀ k, SortedCols (csrRow B k))
    (R : List (Row α)) (h : csrAddMatMat allow alpha X D B = .ok R) :
    R.length = X.rows ∧ ∀ i, i < X.rows → ∃ r, R[i]? = some r ∧ rowCols r = rowCols (csrRow X i) ∧
      ∀ j, rowVal r j = rowVal (csrRow X i) j + ((csrRow D i).map fun kd =>
        alpha * kd.2 * (if j ∈ rowCols (csrRow X i) then rowVal (csrRow B kd.1) j else 0)).sum := by
  rw [csrAddMatMat_eq] at h
  split at h
  · simp at h
  · have := products_spec allow X.rows (csrRow X) (wMM alpha D B) hX (wMM_sorted alpha D B hB) R h
    simpa only [wMM, List.map_map, Function.comp_def] using this

/-- `X.add_double_mat_product(D, A, B, alpha, allow)` with a CSR middle factor:
    `X'_ij = X_ij + Σ_k Σ_l alpha·D_ik·A_kl·B_lj` on the pattern of `X` -/
theorem C03.addDoubleMatMat_spec {α : Type} [CommRing α] (allow : Bool) (alpha : α) (X D A B : Csr α)
    (hX : ∀ i, SortedCols (csrRow X i)) (hB : ∀ k, SortedCols (csrRow B k))
    (R : List (Row α)) (h : csrAddDoubleMatMat allow alpha X D A B = .ok R) :
    R.length = X.rows ∧ ∀ i, i < X.rows → ∃ r, R[i]? = some r ∧ rowCols r = rowCols (csrRow X i) ∧
      ∀ j, rowVal r j = rowVal (csrRow X i) j +
        (((csrRow D i).flatMap fun kd => (csrRow A kd.1).map fun la => (alpha * kd.2 * la.2, csrRow B la.1)).map fun w =>
          w.1 * (if j ∈ rowCols (csrRow X i) then rowVal w.2 j else 0)).sum := by
  rw [csrAddDoubleMatMat_eq] at h
  split at h
  · simp at h
  · exact products_spec allow X.rows (csrRow X) (wDMM alpha D A B) hX (wDMM_sorted alpha D A B hB) R h

/-- `X.add_double_mat_product(D, a, B, alpha, allow)` with a diagonal middle factor:
    `X'_ij = X_ij + Σ_k alpha·D_ik·a_k·B_kj` on the pattern of `X` -/
theorem C03.addDoubleDiag_spec {α : Type} [CommRing α] (allow : Bool) (alpha : α) (X D : Csr α) (a : Array α) (B : Csr α)
    (hX : ∀ i, SortedCols (csrRow X i)) (hB : ∀ k, SortedCols (csrRow B k))
    (R : List (Row α)) (h : csrAddDoubleDiag allow alpha X D a B = .ok R) :
    R.length = X.rows ∧ ∀ i, i < X.rows → ∃ r, R[i]? = some r ∧ rowCols r = rowCols (csrRow X i) ∧
      ∀ j, rowVal r j = rowVal (csrRow X i) j + ((csrRow D i).map fun kd =>
        alpha * kd.2 * a.getD kd.1 0 * (if j ∈ rowCols (csrRow X i) then rowVal (csrRow B kd.1) j else 0)).sum := by
  rw [csrAddDoubleDiag_eq] at h
  split at h
  · simp at h
  · have := products_spec allow X.rows (csrRow X) (wDGM alpha D a B) hX (wDGM_sorted alpha D a B hB) R h
    simpa only [wDGM, List.map_map, Function.comp_def] using this

/-- **never silently wrong** (matrix level, `allow_incomplete = false`): `add_mat_mat_product` either aborts or has
    added the *unrestricted* product `alpha·D·B` (every product entry found its place in `X`) -/
theorem C03.addMatMat_never_silently_wrong {α : Type} [CommRing α] (alpha : α) (X D B : Csr α)
    (hX : ∀ i, SortedCols (csrRow X i)) (hB : ∀ k, SortedCols (csrRow B k)) :
    (∃ e, csrAddMatMat false alpha X D B = .error e) ∨
    ∃ R, csrAddMatMat false alpha X D B = .ok R ∧ R.length = X.rows ∧
      ∀ i, i < X.rows → ∃ r, R[i]? = some r ∧ rowCols r = rowCols (csrRow X i) ∧
        ∀ j, rowVal r j = rowVal (csrRow X i) j +
          ((csrRow D i).map fun kd => alpha * kd.2 * rowVal (csrRow B kd.1) j).sum := by
  cases h : csrAddMatMat false alpha X D B with
  | error e => exact Or.inl ⟨e, rfl⟩
  | ok R =>
    refine Or.inr ⟨R, rfl, ?_⟩
    rw [csrAddMatMat_eq] at h
    split at h
    · simp at h
    · have := products_spec_strict X.rows (csrRow X) (wMM alpha D B) hX (wMM_sorted alpha D B hB) R h
      simpa only [wMM, List.map_map, Function.comp_def] using this

/-- the same for the double product with a CSR middle factor -/
theorem C03.addDoubleMatMat_never_silently_wrong {α : Type} [CommRing α] (alpha : α) (X D A B : Csr α)
    (hX : ∀ i, SortedCols (csrRow X i)) (hB : ∀ k, SortedCols (csrRow B k)) :
    (∃ e, csrAddDoubleMatMat false alpha X D A B = .error e) ∨
    ∃ R, csrAddDoubleMatMat false alpha X D A B = .ok R ∧ R.length = X.rows ∧
      ∀ i, i < X.rows → ∃ r, R[i]? = some r ∧ rowCols r = rowCols (csrRow X i) ∧
        ∀ j, rowVal r j = rowVal (csrRow X i) j +
          (((csrRow D i).flatMap fun kd => (csrRow A kd.1).map fun la => (alpha * kd.2 * la.2, csrRow B la.1)).map
            fun w => w.1 * rowVal w.2 j).sum := by
  cases h : csrAddDoubleMatMat false alpha X D A B with
  | error e => exact Or.inl ⟨e, rfl⟩
  | ok R =>
    refine Or.inr ⟨R, rfl, ?_⟩
    rw [csrAddDoubleMatMat_eq] at h
    split at h
    · simp at h
    · exact products_spec_strict X.rows (csrRow X) (wDMM alpha D A B) hX (wDMM_sorted alpha D A B hB) R h

/-- the same for the double product with a diagonal middle factor -/
theorem C03.addDoubleDiag_never_silently_wrong {α : Type} [CommRing α] (alpha : α) (X D : Csr α) (a : Array α) (B : Csr α)
    (hX : ∀ i, SortedCols (csrRow X i)) (hB : ∀ k, SortedCols (csrRow B k)) :
    (∃ e, csrAddDoubleDiag false alpha X D a B = .error e) ∨
    ∃ R, csrAddDoubleDiag false alpha X D a B = .ok R ∧ R.length = X.rows ∧
      ∀ i, i < X.rows → ∃ r, R[i]? = some r ∧ rowCols r = rowCols (csrRow X i) ∧
        ∀ j, rowVal r j = rowVal (csrRow X i) j +
          ((csrRow D i).map fun kd => alpha * kd.2 * a.getD kd.1 0 * rowVal (csrRow B kd.1) j).sum := by
  cases h : csrAddDoubleDiag false alpha X D a B with
  | error e => exact Or.inl ⟨e, rfl⟩
  | ok R =>
    refine Or.inr ⟨R, rfl, ?_⟩
    rw [csrAddDoubleDiag_eq] at h
    split at h
    · simp at h
    · have := products_spec_strict X.rows (csrRow X) (wDGM alpha D a B) hX (wDGM_sorted alpha D a B hB) R h
      simpa only [wDGM, List.map_map, Function.comp_def] using this

/-- a required-pattern violation is reported: some stored `D_ik` and some column of row `k` of `B` that row `i` of
    `X` lacks, `allow_incomplete = false` ⇒ `add_mat_mat_product` aborts (whatever the values, even for `alpha = 0`) -/
theorem C03.addMatMat_incomplete_reported {α : Type} [CommRing α] (alpha : α) (X D B : Csr α)
    (i : Nat) (hi : i < X.rows) (kd : Nat × α) (hk : kd ∈ csrRow D i) (c : Nat)
    (hc : c ∈ rowCols (csrRow B kd.1)) (hmiss : c ∉ rowCols (csrRow X i)) :
    ∃ e, csrAddMatMat false alpha X D B = .error e := by
  unfold csrAddMatMat
  split
  · exact ⟨_, rfl⟩
  · exact products_reported X.rows (csrRow X) _ i hi (updS (alpha * kd.2), csrRow B kd.1)
      (List.mem_map.mpr ⟨kd, hk, rfl⟩) c hc hmiss

/-- dimension mismatches are reported (the `XASSERT`s at the top of the member) -/
theorem C03.addMatMat_dims_reported {α : Type} [CommRing α] (allow : Bool) (alpha : α) (X D B : Csr α)
    (h : X.rows ≠ D.rows ∨ D.cols ≠ B.rows ∨ B.cols ≠ X.cols) : csrAddMatMat allow alpha X D B = .error .dims := by
  unfold csrAddMatMat
  rw [if_pos]
  rcases h with h | h | h <;> simp [h]

/-- compatible dimensions and `allow_incomplete = true`: the call always returns -/
theorem C03.addMatMat_allow_returns {α : Type} [CommRing α] (alpha : α) (X D B : Csr α)
    (h1 : X.rows = D.rows) (h2 : D.cols = B.rows) (h3 : B.cols = X.cols) :
    ∃ R, csrAddMatMat true alpha X D B = .ok R := by
  unfold csrAddMatMat
  rw [if_neg (by simp [h1, h2, h3])]
  exact products_allow_ok X.rows (csrRow X) _

/-- compatible dimensions and a complete pattern (every structural product entry exists in `X`): the call returns,
    whatever the flag -/
theorem C03.addMatMat_complete_returns {α : Type} [CommRing α] (allow : Bool) (alpha : α) (X D B : Csr α)
    (h1 : X.rows = D.rows) (h2 : D.cols = B.rows) (h3 : B.cols = X.cols)
    (hX : ∀ i, SortedCols (csrRow X i)) (hB : ∀ k, SortedCols (csrRow B k))
    (hsub : ∀ i, i < X.rows → ∀ kd ∈ csrRow D i, ∀ c ∈ rowCols (csrRow B kd.1), c ∈ rowCols (csrRow X i)) :
    ∃ R, csrAddMatMat allow alpha X D B = .ok R := by
  unfold csrAddMatMat
  rw [if_neg (by simp [h1, h2, h3])]
  refine products_complete_ok allow X.rows (csrRow X) _ hX ?_ ?_
  · intro i t ht
    obtain ⟨kd, _, rfl⟩ := List.mem_map.mp ht
    exact hB _
  · intro i hi t ht c hc
    obtain ⟨kd, hk, rfl⟩ := List.mem_map.mp ht
    exact hsub i hi kd hk c hc

/-! ## row-loop kernels -/

/-- `scale_rows`: `this_ij = x_ij · s_i` when `x` has the layout of `this` (e.g. `x` is `this`) -/
theorem C03.scaleRows_dense {α : Type} [CommRing α] (T X : Csr α) (s : Array α)
    (hp : X.rowPtr = T.rowPtr) (hc : X.colInd = T.colInd) :
    scaleRowsK T X.val s = ((List.range T.rows).map fun i => (csrRow X i).map fun p => (p.1, p.2 * s.getD i 0)) ∧
    ∀ i j, rowVal ((csrRow X i).map fun p => (p.1, p.2 * s.getD i 0)) j = rowVal (csrRow X i) j * s.getD i 0 :=
  ⟨scaleRowsK_eq T X s hp hc, fun _ j => rowVal_map_mul _ _ j⟩

/-- `scale_cols`: `this_ij = x_ij · s_j` -/
theorem C03.scaleCols_dense {α : Type} [CommRing α] (T X : Csr α) (s : Array α)
    (hp : X.rowPtr = T.rowPtr) (hc : X.colInd = T.colInd) :
    scaleColsK T X.val s = ((List.range T.rows).map fun i => (csrRow X i).map fun p => (p.1, p.2 * s.getD p.1 0)) ∧
    ∀ i j, rowVal ((csrRow X i).map fun p => (p.1, p.2 * s.getD p.1 0)) j = rowVal (csrRow X i) j * s.getD j 0 :=
  ⟨scaleColsK_eq T X s hp hc, fun _ j => rowVal_map_mul_col _ (fun c => s.getD c 0) j⟩

/-- `lump_rows`: the sum of the stored values of the row (= the dense row sum) -/
theorem C03.lump_dense {α : Type} [CommRing α] (A : Csr α) :
    csrLump A = (List.range A.rows).map fun i => ((csrRow A i).map Prod.snd).sum := by
  simp only [csrLump, csrRows, List.map_map]
  exact List.map_congr_left (fun i _ => lumpRow_eq_sum _)

/-- `row_norm2sqr`: the sum of the squares of the stored values of the row; `row_norm2` is its square root -/
theorem C03.rowNorm2Sqr_dense {α : Type} [CommRing α] (sqrt : α → α) (A : Csr α) :
    csrRowNorm2Sqr A = ((List.range A.rows).map fun i => ((csrRow A i).map fun p => p.2 * p.2).sum) ∧
    csrRowNorm2 sqrt A = (csrRowNorm2Sqr A).map sqrt := by
  refine ⟨?_, by simp [csrRowNorm2, csrRowNorm2Sqr, List.map_map]⟩
  simp only [csrRowNorm2Sqr, csrRows, List.map_map]
  exact List.map_congr_left (fun i _ => rowNormSq_eq_sum _)

/-- `Arch::Diagonal::csr_generic` on one row: the result is the storage position of the *first* entry whose column
    equals the row number, or `row_ptr[rows]` when there is none (then `extract_diag` returns 0) -/
theorem C03.diagIndex_spec (rowBegin notFound row : Nat) (cols : List Nat) :
    (row ∉ cols ∧ diagIndexRow rowBegin notFound row cols 0 = notFound) ∨
    (∃ t, t < cols.length ∧ cols[t]? = some row ∧ (∀ u, u < t → cols[u]? ≠ some row) ∧
      diagIndexRow rowBegin notFound row cols 0 = rowBegin + t) := by
  simpa using diagIndexRow_spec rowBegin notFound row cols 0

/-- `shrink(eps)`: every row keeps exactly its entries with `¬ |v| < eps`, in their order -/
theorem C03.shrink_spec {α : Type} [LT α] [DecidableLT α] [Neg α] [Zero α] (eps : α) (r : Row α) :
    (shrinkRow eps r).Sublist r ∧ ∀ p, p ∈ shrinkRow eps r ↔ p ∈ r ∧ ¬ (FeatModel.Vec.absK p.2 < eps) :=
  ⟨shrinkRow_sublist eps r, mem_shrinkRow eps r⟩

/-! ## the same dense meaning as C01: `rowVal (csrRow A i) j = Csr.entry A i j` -/

/-- bridge to the shared dense meaning of `Model/LA/Csr.lean` (the one the C01 theorems speak about) -/
theorem C03.rowVal_eq_entry {α : Type} [CommRing α] (A : Csr α) (hA : A.wf = true) (i : Nat) (hi : i < A.rows) (j : Nat) :
    rowVal (csrRow A i) j = A.entry i j :=
  rowVal_csrRow_eq_entry ((Csr.wf_iff A).mp hA) hi j

/-- `add_mat_mat_product` in terms of `Csr.entry`: `X'_ij = ⟦X⟧_ij + Σ_{stored D_ik} alpha·D_ik·⟦B⟧_kj` on the pattern of X -/
theorem C03.addMatMat_entry {α : Type} [CommRing α] (allow : Bool) (alpha : α) (X D B : Csr α)
    (hXw : X.wf = true) (hDw : D.wf = true) (hBw : B.wf = true)
    (hX : ∀ i, SortedCols (csrRow X i)) (hB : ∀ k, SortedCols (csrRow B k))
    (R : List (Row α)) (h : csrAddMatMat allow alpha X D B = .ok R) :
    R.length = X.rows ∧ ∀ i, i < X.rows → ∃ r, R[i]? = some r ∧ rowCols r = rowCols (csrRow X i) ∧
      ∀ j, rowVal r j = X.entry i j + ((csrRow D i).map fun kd =>
        alpha * kd.2 * (if j ∈ rowCols (csrRow X i) then B.entry kd.1 j else 0)).sum := by
  obtain ⟨hl, hr⟩ := C03.addMatMat_spec allow alpha X D B hX hB R h
  have hdims : X.rows = D.rows ∧ D.cols = B.rows := by
    unfold csrAddMatMat at h
    split at h
    · simp at h
    · next hc => simp only [Bool.or_eq_true, bne_iff_ne, not_or, ne_eq, not_not] at hc; exact ⟨hc.1.1, hc.1.2⟩
  refine ⟨hl, fun i hi => ?_⟩
  obtain ⟨r, h1, h2, h3⟩ := hr i hi
  refine ⟨r, h1, h2, fun j => ?_⟩
  rw [h3 j, rowVal_csrRow_eq_entry ((Csr.wf_iff X).mp hXw) hi j]
  congr 2
  apply List.map_congr_left
  intro kd hk
  have hlt : kd.1 < B.rows := by
    rw [← hdims.2]; exact mem_csrRow_col_lt ((Csr.wf_iff D).mp hDw) (by rw [← hdims.1]; exact hi) hk
  rw [rowVal_csrRow_eq_entry ((Csr.wf_iff B).mp hBw) hlt j]

/-! ## the two kernels repaired after this check found them (formerly c03-edge:F1 / F2) -/

/-- `row_norm2sqr(row_norms, scal)` (CSR): the documented scaled row norm `Σ_j scal_j·a_ij²`, as a sum over the stored
    entries of the row (entries that are not stored contribute 0) -/
theorem C03.rowNorm2SqrScaled_spec {α : Type} [CommRing α] (A : Csr α) (scal : Array α) :
    csrRowNorm2SqrScaled A scal =
      (List.range A.rows).map fun i => ((csrRow A i).map fun p => scal.getD p.1 0 * (p.2 * p.2)).sum := by
  unfold csrRowNorm2SqrScaled
  exact List.map_congr_left (fun i _ => by
    rw [foldl_add_eq_sum (fun (p : Nat × α) => scal.getD p.1 0 * (p.2 * p.2)) (csrRow A i) 0, zero_add])

/-- `row_norm2sqr` (BCSR): scalar row `i` of block row `row` = the sum of the squares of row `i` of every stored block -/
theorem C03.bcsrRowNorm2Sqr_spec {α : Type} [CommRing α] (A : Bcsr α) :
    bcsrRowNorm2Sqr A none = (List.range A.rows).flatMap fun row => (List.range A.bh).map fun i =>
      ((bcsrRow A row).map fun p =>
        ((List.range A.bw).map fun j => p.2.getD (i * A.bw + j) 0 * p.2.getD (i * A.bw + j) 0).sum).sum := by
  unfold bcsrRowNorm2Sqr
  simp only [foldl_add_eq_sum, zero_add]

/-- `row_norm2` (BCSR) = the square root (the harness and the driver use the same `qsqrt`) of the row's sum of
    squares, taken once per scalar row -/
theorem C03.bcsrRowNorm2_spec {α : Type} [CommRing α] (sqrt : α → α) (A : Bcsr α) :
    bcsrRowNorm2 sqrt A = (List.range A.rows).flatMap fun row => (List.range A.bh).map fun i =>
      sqrt ((bcsrRow A row).map fun p =>
        ((List.range A.bw).map fun j => p.2.getD (i * A.bw + j) 0 * p.2.getD (i * A.bw + j) 0).sum).sum := by
  unfold bcsrRowNorm2
  rw [C03.bcsrRowNorm2Sqr_spec]
  simp [List.map_flatMap, List.map_map, Function.comp_def]

/-! ## the products over the shared dense meaning, sums over ALL inner indices -/

/-- `add_mat_mat_product`: `⟦X'⟧ i j = ⟦X⟧ i j + α · Σ_{k < cols D} ⟦D⟧ i k · ⟦B⟧ k j` for every `(i, j)` in the pattern of `X`
    (`⟦·⟧` = `Csr.entry`, the dense meaning of C01; `rowVal r j` is the dense meaning of the new row `i`) -/
theorem C03.addMatMat_dense {α : Type} [CommRing α] (allow : Bool) (alpha : α) (X D B : Csr α)
    (hXw : X.wf = true) (hDw : D.wf = true) (hBw : B.wf = true)
    (hX : ∀ i, SortedCols (csrRow X i)) (hB : ∀ k, SortedCols (csrRow B k))
    (R : List (Row α)) (h : csrAddMatMat allow alpha X D B = .ok R) :
    R.length = X.rows ∧ ∀ i, i < X.rows → ∃ r, R[i]? = some r ∧ rowCols r = rowCols (csrRow X i) ∧
      ∀ j, j ∈ rowCols (csrRow X i) →
        rowVal r j = X.entry i j + alpha * ∑ k ∈ Finset.range D.cols, D.entry i k * B.entry k j := by
  obtain ⟨hl, hr⟩ := C03.addMatMat_spec allow alpha X D B hX hB R h
  obtain ⟨d1, d2, _⟩ := csrAddMatMat_ok_dims h
  have wX := (Csr.wf_iff X).mp hXw
  have wD := (Csr.wf_iff D).mp hDw
  have wB := (Csr.wf_iff B).mp hBw
  refine ⟨hl, fun i hi => ?_⟩
  obtain ⟨r, h1, h2, h3⟩ := hr i hi
  refine ⟨r, h1, h2, fun j hj => ?_⟩
  have hiD : i < D.rows := d1 ▸ hi
  rw [h3 j, rowVal_csrRow_eq_entry wX hi j]
  congr 1
  simp only [if_pos hj]
  rw [← csrRow_weighted_sum wD hiD alpha (fun k => B.entry k j)]
  congr 1
  apply List.map_congr_left
  intro kd hk
  rw [rowVal_csrRow_eq_entry wB (d2 ▸ mem_csrRow_col_lt wD hiD hk) j]

/-- `add_double_mat_product` (CSR middle factor):
    `⟦X'⟧ i j = ⟦X⟧ i j + α · Σ_k ⟦D⟧ i k · Σ_l ⟦A⟧ k l · ⟦B⟧ l j` on the pattern of `X` -/
theorem C03.addDoubleMatMat_dense {α : Type} [CommRing α] (allow : Bool) (alpha : α) (X D A B : Csr α)
    (hXw : X.wf = true) (hDw : D.wf = true) (hAw : A.wf = true) (hBw : B.wf = true)
    (hX : ∀ i, SortedCols (csrRow X i)) (hB : ∀ k, SortedCols (csrRow B k))
    (R : List (Row α)) (h : csrAddDoubleMatMat allow alpha X D A B = .ok R) :
    R.length = X.rows ∧ ∀ i, i < X.rows → ∃ r, R[i]? = some r ∧ rowCols r = rowCols (csrRow X i) ∧
      ∀ j, j ∈ rowCols (csrRow X i) →
        rowVal r j = X.entry i j + alpha * ∑ k ∈ Finset.range D.cols, D.entry i k *
          ∑ l ∈ Finset.range A.cols, A.entry k l * B.entry l j := by
  obtain ⟨hl, hr⟩ := C03.addDoubleMatMat_spec allow alpha X D A B hX hB R h
  obtain ⟨d1, d2, d3, _⟩ := csrAddDoubleMatMat_ok_dims h
  have wX := (Csr.wf_iff X).mp hXw
  have wD := (Csr.wf_iff D).mp hDw
  have wA := (Csr.wf_iff A).mp hAw
  have wB := (Csr.wf_iff B).mp hBw
  refine ⟨hl, fun i hi => ?_⟩
  obtain ⟨r, h1, h2, h3⟩ := hr i hi
  refine ⟨r, h1, h2, fun j hj => ?_⟩
  have hiD : i < D.rows := d1 ▸ hi
  rw [h3 j, rowVal_csrRow_eq_entry wX hi j]
  congr 1
  simp only [if_pos hj]
  rw [sum_flatMap_map, ← csrRow_weighted_sum wD hiD alpha (fun k => ∑ l ∈ Finset.range A.cols, A.entry k l * B.entry l j)]
  congr 1
  apply List.map_congr_left
  intro kd hk
  have hkA : kd.1 < A.rows := d2 ▸ mem_csrRow_col_lt wD hiD hk
  rw [List.map_map, ← csrRow_weighted_sum wA hkA (alpha * kd.2) (fun l => B.entry l j)]
  congr 1
  apply List.map_congr_left
  intro la hla
  simp only [Function.comp]
  rw [rowVal_csrRow_eq_entry wB (d3 ▸ mem_csrRow_col_lt wA hkA hla) j]

/-- `add_double_mat_product` (diagonal middle factor):
    `⟦X'⟧ i j = ⟦X⟧ i j + α · Σ_k ⟦D⟧ i k · (a_k · ⟦B⟧ k j)` on the pattern of `X` -/
theorem C03.addDoubleDiag_dense {α : Type} [CommRing α] (allow : Bool) (alpha : α) (X D : Csr α) (a : Array α) (B : Csr α)
    (hXw : X.wf = true) (hDw : D.wf = true) (hBw : B.wf = true)
    (hX : ∀ i, SortedCols (csrRow X i)) (hB : ∀ k, SortedCols (csrRow B k))
    (R : List (Row α)) (h : csrAddDoubleDiag allow alpha X D a B = .ok R) :
    R.length = X.rows ∧ ∀ i, i < X.rows → ∃ r, R[i]? = some r ∧ rowCols r = rowCols (csrRow X i) ∧
      ∀ j, j ∈ rowCols (csrRow X i) →
        rowVal r j = X.entry i j + alpha * ∑ k ∈ Finset.range D.cols, D.entry i k * (a.getD k 0 * B.entry k j) := by
  obtain ⟨hl, hr⟩ := C03.addDoubleDiag_spec allow alpha X D a B hX hB R h
  obtain ⟨d1, d2, d3, _⟩ := csrAddDoubleDiag_ok_dims h
  have wX := (Csr.wf_iff X).mp hXw
  have wD := (Csr.wf_iff D).mp hDw
  have wB := (Csr.wf_iff B).mp hBw
  refine ⟨hl, fun i hi => ?_⟩
  obtain ⟨r, h1, h2, h3⟩ := hr i hi
  refine ⟨r, h1, h2, fun j hj => ?_⟩
  have hiD : i < D.rows := d1 ▸ hi
  rw [h3 j, rowVal_csrRow_eq_entry wX hi j]
  congr 1
  simp only [if_pos hj]
  rw [← csrRow_weighted_sum wD hiD alpha (fun k => a.getD k 0 * B.entry k j)]
  congr 1
  apply List.map_congr_left
  intro kd hk
  rw [rowVal_csrRow_eq_entry wB (d3 ▸ d2 ▸ mem_csrRow_col_lt wD hiD hk) j]
  ring

/-! ## BCSR: the products with non-commuting blocks, and the row-loop members for every block shape

Blocks are row-major lists of `bh·bw` scalars; `blockMul n a b` is the matrix product `a·b` of two `n×n` blocks,
`blockAdd` the entry-wise sum, `rowGet r c` the block stored at column `c` of a row (if any).  `SparseMatrixBCSR` has no
`add_mat_mat_product`; its two products are the double products below. -/

/-- `add_double_mat_product(BCSR D, BCSR A, BCSR B)`: every block `X_ic` of the returned matrix is the old block plus,
    in the order of the loops (`k` over the stored blocks of row `i` of `D`, `l` over the stored blocks of row `k` of
    `A`), the block products `((D_ik · A_kl) · α) · B_lc` for which `B_l` stores column `c` — the factors are multiplied
    in exactly this order (blocks do not commute); entries of `B_l` without partner in `X_i` are dropped -/
theorem C03.addDoubleMatMat_spec_bcsr {α : Type} [Zero α] [Add α] [Mul α] (allow : Bool) (alpha : α) (X D A B : Bcsr α)
    (hX : ∀ i, SortedCols (bcsrRow X i)) (hB : ∀ k, SortedCols (bcsrRow B k))
    (R : List (Row (List α))) (h : bcsrAddDoubleMatMat allow alpha X D A B = .ok R) :
    R.length = X.rows ∧ ∀ i, i < X.rows → R[i]? = some ((bcsrRow X i).map fun p => (p.1,
      (bcsrRow D i).foldl (fun acc kd => (bcsrRow A kd.1).foldl (fun acc la =>
        (rowGet (bcsrRow B la.1) p.1).elim acc
          (fun vb => blockAdd acc (blockMul X.bh ((blockMul X.bh kd.2 la.2).map (· * alpha)) vb))) acc) p.2)) := by
  rw [bcsrAddDoubleMatMat_eq] at h
  split at h
  · simp at h
  · split at h
    · simp at h
    · obtain ⟨hl, hr⟩ := products_eq_map allow X.rows (bcsrRow X) (tDMMb alpha X.bh D A B) hX
        (tDMMb_sorted alpha X.bh D A B hB) R h
      refine ⟨hl, fun i hi => ?_⟩
      rw [hr i hi]
      exact congrArg some (List.map_congr_left (fun p _ => applyMany_tDMMb alpha X.bh D A B i p))

/-- `add_double_mat_product(CSR D, BCSR A, CSR B)`: `X_ic += ((α · d_ik) · A_kl) · b_lc` with scalar `d_ik`, `b_lc`,
    in the order of the loops -/
theorem C03.addDoubleMatMat_spec_csr_bcsr_csr {α : Type} [Zero α] [Add α] [Mul α] (allow : Bool) (alpha : α) (X : Bcsr α)
    (D : Csr α) (A : Bcsr α) (B : Csr α)
    (hX : ∀ i, SortedCols (bcsrRow X i)) (hB : ∀ k, SortedCols (csrRow B k))
    (R : List (Row (List α))) (h : bcsrAddDoubleCsrBcsrCsr allow alpha X D A B = .ok R) :
    R.length = X.rows ∧ ∀ i, i < X.rows → R[i]? = some ((bcsrRow X i).map fun p => (p.1,
      (csrRow D i).foldl (fun acc kd => (bcsrRow A kd.1).foldl (fun acc la =>
        (rowGet (csrRow B la.1) p.1).elim acc
          (fun vb => blockAdd acc ((la.2.map ((alpha * kd.2) * ·)).map (· * vb)))) acc) p.2)) := by
  rw [bcsrAddDoubleCsrBcsrCsr_eq] at h
  split at h
  · simp at h
  · split at h
    · simp at h
    · obtain ⟨hl, hr⟩ := products_eq_map allow X.rows (bcsrRow X) (tDMMc alpha D A B) hX
        (tDMMc_sorted alpha D A B hB) R h
      refine ⟨hl, fun i hi => ?_⟩
      rw [hr i hi]
      exact congrArg some (List.map_congr_left (fun p _ => applyMany_tDMMc alpha D A B i p))

/-- BCSR·BCSR·BCSR, `allow_incomplete = false`: the call aborts, or nothing was dropped (every column of every merged
    row of `B` exists in the row of `X`) — so the formula above is then the full product -/
theorem C03.addDoubleMatMat_never_silently_wrong_bcsr {α : Type} [Zero α] [Add α] [Mul α] (alpha : α) (X D A B : Bcsr α) :
    (∃ e, bcsrAddDoubleMatMat false alpha X D A B = .error e) ∨
    ∃ R, bcsrAddDoubleMatMat false alpha X D A B = .ok R ∧
      ∀ i, i < X.rows → ∀ kd ∈ bcsrRow D i, ∀ la ∈ bcsrRow A kd.1, ∀ c ∈ rowCols (bcsrRow B la.1),
        c ∈ rowCols (bcsrRow X i) := by
  cases h : bcsrAddDoubleMatMat false alpha X D A B with
  | error e => exact Or.inl ⟨e, rfl⟩
  | ok R =>
    refine Or.inr ⟨R, rfl, ?_⟩
    rw [bcsrAddDoubleMatMat_eq] at h
    split at h
    · simp at h
    · split at h
      · simp at h
      · intro i hi kd hk la hla c hc
        have ht : ∃ t ∈ tDMMb alpha X.bh D A B i, t.2 = bcsrRow B la.1 := by
          simp only [tDMMb, List.mem_flatMap, List.mem_map]
          exact ⟨_, ⟨kd, hk, la, hla, rfl⟩, rfl⟩
        obtain ⟨t, ht, he⟩ := ht
        exact products_strict_subset X.rows (bcsrRow X) (tDMMb alpha X.bh D A B) R h i hi t ht c (he ▸ hc)

/-- the same for CSR·BCSR·CSR -/
theorem C03.addDoubleMatMat_never_silently_wrong_csr_bcsr_csr {α : Type} [Zero α] [Add α] [Mul α] (alpha : α) (X : Bcsr α)
    (D : Csr α) (A : Bcsr α) (B : Csr α) :
    (∃ e, bcsrAddDoubleCsrBcsrCsr false alpha X D A B = .error e) ∨
    ∃ R, bcsrAddDoubleCsrBcsrCsr false alpha X D A B = .ok R ∧
      ∀ i, i < X.rows → ∀ kd ∈ csrRow D i, ∀ la ∈ bcsrRow A kd.1, ∀ c ∈ rowCols (csrRow B la.1),
        c ∈ rowCols (bcsrRow X i) := by
  cases h : bcsrAddDoubleCsrBcsrCsr false alpha X D A B with
  | error e => exact Or.inl ⟨e, rfl⟩
  | ok R =>
    refine Or.inr ⟨R, rfl, ?_⟩
    rw [bcsrAddDoubleCsrBcsrCsr_eq] at h
    split at h
    · simp at h
    · split at h
      · simp at h
      · intro i hi kd hk la hla c hc
        have ht : ∃ t ∈ tDMMc alpha D A B i, t.2 = csrRow B la.1 := by
          simp only [tDMMc, List.mem_flatMap, List.mem_map]
          exact ⟨_, ⟨kd, hk, la, hla, rfl⟩, rfl⟩
        obtain ⟨t, ht, he⟩ := ht
        exact products_strict_subset X.rows (bcsrRow X) (tDMMc alpha D A B) R h i hi t ht c (he ▸ hc)

/-- `scale_rows` (BCSR, any block shape): element `(t / bw, t % bw)` of every block is multiplied by `s[row·bh + t / bw]` -/
theorem C03.scaleRows_bcsr {α : Type} [CommRing α] (T X : Bcsr α) (s : Array α)
    (hp : X.rowPtr = T.rowPtr) (hc : X.colInd = T.colInd) (hh : X.bh = T.bh) (hw : X.bw = T.bw) :
    bcsrScaleRC false T X.val s = (List.range T.rows).map fun row => (bcsrRow X row).map fun p =>
      (p.1, (List.range (T.bh * T.bw)).map fun t => p.2.getD t 0 * s.getD (row * T.bh + t / T.bw) 0) := by
  simpa using bcsrScaleRC_eq false T X s hp hc hh hw

/-- `scale_cols` (BCSR): element `(t / bw, t % bw)` of the block in block column `c` is multiplied by `s[c·bw + t % bw]` -/
theorem C03.scaleCols_bcsr {α : Type} [CommRing α] (T X : Bcsr α) (s : Array α)
    (hp : X.rowPtr = T.rowPtr) (hc : X.colInd = T.colInd) (hh : X.bh = T.bh) (hw : X.bw = T.bw) :
    bcsrScaleRC true T X.val s = (List.range T.rows).map fun row => (bcsrRow X row).map fun p =>
      (p.1, (List.range (T.bh * T.bw)).map fun t => p.2.getD t 0 * s.getD (p.1 * T.bw + t % T.bw) 0) := by
  simpa using bcsrScaleRC_eq true T X s hp hc hh hw

/-- `lump_rows` (BCSR, any block shape): the dense row sum of scalar row `row·bh + i` -/
theorem C03.lump_bcsr {α : Type} [CommRing α] (A : Bcsr α) :
    bcsrLump A = (List.range A.rows).flatMap fun row => (List.range A.bh).map fun i =>
      ((bcsrRow A row).map fun p => ((List.range A.bw).map fun j => p.2.getD (i * A.bw + j) 0).sum).sum :=
  bcsrLump_eq A

/-- scaled `row_norm2sqr` (BCSR, any block shape): `Σ_j scal_j·a_ij²` with `j = bw·col + jj` -/
theorem C03.rowNorm2SqrScaled_bcsr {α : Type} [CommRing α] (A : Bcsr α) (sc : Array α) :
    bcsrRowNorm2Sqr A (some sc) = (List.range A.rows).flatMap fun row => (List.range A.bh).map fun i =>
      ((bcsrRow A row).map fun p => ((List.range A.bw).map fun j =>
        sc.getD (A.bw * p.1 + j) 0 * (p.2.getD (i * A.bw + j) 0 * p.2.getD (i * A.bw + j) 0)).sum).sum :=
  bcsrRowNorm2SqrScaled_eq A sc

/-- `extract_diag` (BCSR): a matrix with different block-row and block-column counts *or non-square blocks* is
    reported (the scalar matrix is then not square: no main diagonal; /repo fix 214562810, formerly KNOWN_FINDINGS
    c03-edge:F4: for `bh > bw` the position `i·bw + i` left the block); otherwise scalar row `row·bh + i` gets element
    `(i, i)` of the diagonal block found by the search of `C03.diagIndex_spec`, 0 without one. -/
theorem C03.extractDiag_bcsr {α : Type} [Zero α] (A : Bcsr α) :
    ((A.rows ≠ A.cols ∨ A.bh ≠ A.bw) → bcsrExtractDiag A = .error .dims) ∧
    (A.rows = A.cols → A.bh = A.bw →
      bcsrExtractDiag A = .ok ((bcsrDiagIndices A).flatMap fun k => (List.range A.bh).map fun i =>
      if k != A.usedElements then A.val.getD (k * A.bh * A.bw + i * A.bw + i) 0 else 0)) := by
  constructor
  · intro h
    by_cases h1 : A.rows = A.cols
    · rcases h with h | h
      · exact absurd h1 h
      · simp [bcsrExtractDiag, h1, h]
    · simp [bcsrExtractDiag, h1]
  · intro h1 h2
    simp [bcsrExtractDiag, h1, h2]

/-- every position read by a successful `extract_diag` lies inside its block: `i·bw + i < bh·bw` -/
theorem C03.extractDiag_bcsr_in_block {α : Type} [Zero α] (A : Bcsr α) (l : List α)
    (h : bcsrExtractDiag A = .ok l) : ∀ i, i < A.bh → i * A.bw + i < A.bh * A.bw := by
  have hb : A.bh = A.bw := by
    unfold bcsrExtractDiag at h
    by_cases h1 : A.rows = A.cols
    · by_cases h2 : A.bh = A.bw
      · exact h2
      · simp [h1, h2] at h
    · simp [h1] at h
  intro i hi
  rw [← hb]
  calc i * A.bh + i < i * A.bh + A.bh := by omega
    _ = (i + 1) * A.bh := by rw [Nat.add_mul, Nat.one_mul]
    _ ≤ A.bh * A.bh := Nat.mul_le_mul_right _ hi

/-! ## the vector kernels on the value array (shared with C04): axpy, scale, Frobenius norm, extreme elements -/

/-- `axpy` on equal shapes: entry `p` of the value array becomes `this_p + α·x_p` — also when `x` is `*this`
    (`r == x` branch `r *= 1 + α`).  Only `rows`, `columns` and `used_elements` are compared by the member: a different
    *pattern* with the same number of entries is documented as the caller's responsibility and is not detected. -/
theorem C03.matrix_axpy_entrywise {α : Type} [CommRing α] (T X : Csr α) (alpha : α) (ali : Bool)
    (hs : sameShape X T = true) (hal : ali = true → X = T) :
    ∃ l, csrAxpy T X alpha ali = .ok l ∧ l.length = T.val.size ∧
      ∀ p, p < T.val.size → l.getD p 0 = T.val.toList.getD p 0 + alpha * X.val.toList.getD p 0 := by
  have hn : X.val.size = T.val.size := by
    simp only [sameShape, Csr.usedElements, Bool.and_eq_true, beq_iff_eq] at hs; exact hs.2
  refine ⟨axpyK ali alpha T.val.toList X.val.toList, by simp [csrAxpy, hs], ?_, fun p hp => ?_⟩
  · cases ali <;> simp [axpyK, hn]
  · exact axpyK_getD ali alpha _ _ (fun h => by rw [hal h]) (by simp [hn]) p (by simpa using hp)

/-- `scale` on equal shapes: entry `p` becomes `x_p·α` (both branches of the kernel) -/
theorem C03.matrix_scale_entrywise {α : Type} [CommRing α] (T X : Csr α) (alpha : α) (ali : Bool)
    (hs : sameShape X T = true) (hal : ali = true → X = T) :
    ∃ l, csrScale T X alpha ali = .ok l ∧
      ∀ p, p < T.val.size → l.getD p 0 = X.val.toList.getD p 0 * alpha := by
  have hn : X.val.size = T.val.size := by
    simp only [sameShape, Csr.usedElements, Bool.and_eq_true, beq_iff_eq] at hs; exact hs.2
  refine ⟨scaleK ali alpha T.val.toList X.val.toList, by simp [csrScale, hs], fun p hp => ?_⟩
  exact scaleK_getD ali alpha _ _ (fun h => by rw [hal h]) (by simp [hn]) p (by simpa using hp)

/-- different `rows`, `columns` or `used_elements` are reported by `axpy` and `scale` -/
theorem C03.matrix_axpy_mismatch_reported {α : Type} [CommRing α] (T X : Csr α) (alpha : α) (ali : Bool)
    (hs : sameShape X T = false) : csrAxpy T X alpha ali = .error .dims ∧ csrScale T X alpha ali = .error .dims := by
  simp [csrAxpy, csrScale, hs]

/-- `norm_frobenius`² = the sum of the squares of the stored values -/
theorem C03.frobenius_sq {α : Type} [CommRing α] (A : Csr α) :
    csrFrobSq A = (A.val.toList.map fun v => v * v).sum := by
  simp [csrFrobSq, sumSq, sumL_eq_sum]

/-- `max_element` / `min_element` / `max_abs_element` / `min_abs_element`: the returned value is attained by a stored
    value and bounds all stored values (`none` = no stored value: the real member has no defined result) -/
theorem C03.matrix_extreme_elements {α : Type} [Field α] [LinearOrder α] [IsStrictOrderedRing α] (A : Csr α) (m : α) :
    (maxElemK A.val.toList = some m → (∀ u ∈ A.val.toList, u ≤ m) ∧ ∃ u ∈ A.val.toList, m = u) ∧
    (minElemK A.val.toList = some m → (∀ u ∈ A.val.toList, m ≤ u) ∧ ∃ u ∈ A.val.toList, m = u) ∧
    (maxAbsElemK A.val.toList = some m → (∀ u ∈ A.val.toList, |u| ≤ m) ∧ ∃ u ∈ A.val.toList, m = |u|) ∧
    (minAbsElemK A.val.toList = some m → (∀ u ∈ A.val.toList, m ≤ |u|) ∧ ∃ u ∈ A.val.toList, m = |u|) := by
  refine ⟨fun h => maxElemK_spec _ m h, fun h => minElemK_spec _ m h, fun h => ?_, fun h => ?_⟩
  · simpa only [IsExt, absK_eq_abs] using maxAbsElemK_spec _ m h
  · simpa only [IsExt, absK_eq_abs] using minAbsElemK_spec _ m h

/-! ## extract_diag at full strength; layout validity gives `SortedCols` -/

/-- the `SortedCols` hypothesis of the theorems above follows, for every row, from the decidable layout validity of C02
    (`Csr.wf && Csr.sortedRows`), which C02 proves for the result of every constructor / conversion / transposition /
    permutation path; the hypothesis cannot be dropped from the value formulas (a duplicated column in `B_l` is merged
    only once), while `merge_incomplete_reported`, `merge_pattern_preserved` and `merge_allow_never_aborts` need none -/
theorem C03.sortedCols_of_valid {α : Type} [Zero α] (A : Csr α) (h1 : A.wf = true) (h2 : A.sortedRows = true) (i : Nat) :
    SortedCols (csrRow A i) :=
  sortedCols_of_sortedRows A h1 h2 i

/-- **`extract_diag` / `extract_diag_indices` (CSR) = the dense diagonal**, for every valid pattern (rows with only
    upper or only lower entries, empty rows, …): `diag_i = ⟦A⟧_ii` (0 when `(i,i)` is not stored), the index is
    `used_elements()` exactly when `(i,i)` is not in the pattern and otherwise the storage position of `(i,i)` -/
theorem C03.extractDiag_dense {α : Type} [CommRing α] (A : Csr α) (hA : A.wf = true) (hS : A.sortedRows = true)
    (hsq : A.rows = A.cols) :
    ∃ vals idx, csrExtractDiag A = .ok (vals, idx) ∧ ∀ i, i < A.rows →
      vals[i]? = some (A.entry i i) ∧
      ∃ k, idx[i]? = some k ∧ (k = A.usedElements ↔ i ∉ rowCols (csrRow A i)) ∧
        (i ∈ rowCols (csrRow A i) → A.rowBegin i ≤ k ∧ k < A.rowEnd i ∧ A.colInd.getD k 0 = i) := by
  refine ⟨(csrDiagIndices A).map (fun k => if k != A.usedElements then A.val.getD k 0 else 0), csrDiagIndices A,
    by simp [csrExtractDiag, hsq], fun i hi => ?_⟩
  have hw := (Csr.wf_iff A).mp hA
  have hrow := csr_diag_row hw (sortedCols_of_sortedRows A hA hS i) hi
  simp only [csrDiagIndices, List.getElem?_map, List.getElem?_range hi, Option.map_some]
  rcases hrow with ⟨hn, hk, he⟩ | ⟨hm, h1, h2, hne, hc, hv⟩
  · refine ⟨by rw [hk, he]; simp, _, rfl, by rw [hk]; simp [hn], fun hm => absurd hm hn⟩
  · refine ⟨by rw [if_pos (by simpa using hne), hv], _, rfl, ?_, fun _ => ⟨h1, h2, hc⟩⟩
    constructor
    · intro e; exact absurd e hne
    · intro e; exact absurd hm e

/-- **`extract_diag` (BCSR, square blocks) = the dense diagonal** of the scalar matrix: entry `row·n + i` of the result
    is `⟦A⟧_(row·n+i),(row·n+i)` (`Bcsr.entry`, the dense meaning of C01), 0 when the diagonal block is not stored -/
theorem C03.extractDiag_dense_bcsr {α : Type} [CommRing α] (A : Bcsr α) (hA : A.wf = true)
    (hS : ∀ row, SortedCols (bcsrRow A row)) (hsq : A.rows = A.cols) (hb : A.bh = A.bw) (hpos : 0 < A.bh) :
    bcsrExtractDiag A = .ok ((List.range A.rows).flatMap fun row => (List.range A.bh).map fun i =>
      A.entry (row * A.bh + i) (row * A.bh + i)) := by
  have hw := (Bcsr.wf_iff A).mp hA
  rw [(C03.extractDiag_bcsr A).2 hsq hb]
  congr 1
  unfold bcsrDiagIndices
  rw [List.flatMap_map]
  apply flatMap_congr_mem
  intro row hrow
  apply List.map_congr_left
  intro i hi
  exact bcsr_diag_row hw hb hpos (hS row) (List.mem_range.mp hrow) (List.mem_range.mp hi) _ rfl

/-! ## extreme elements: first-occurrence tie-breaking of the index kernels; BCSR value-array members; square roots -/

/-- `Arch::MaxIndex / MinIndex / MaxAbsIndex / MinAbsIndex` on the value array of a matrix with at least one stored
    value return the FIRST position of the extremal (absolute) value: every earlier value is strictly worse, every value
    is at most as good.  (`max_element()` etc. then fetch the value at that position: `C03.matrix_extreme_elements`.) -/
theorem C03.extreme_first_occurrence {α : Type} [Field α] [LinearOrder α] [IsStrictOrderedRing α] (x : List α)
    (hne : x ≠ []) :
    (maxIndexK x < x.length ∧ (∀ q, q < maxIndexK x → x.getD q 0 < x.getD (maxIndexK x) 0) ∧
      ∀ q, q < x.length → x.getD q 0 ≤ x.getD (maxIndexK x) 0) ∧
    (minIndexK x < x.length ∧ (∀ q, q < minIndexK x → x.getD (minIndexK x) 0 < x.getD q 0) ∧
      ∀ q, q < x.length → x.getD (minIndexK x) 0 ≤ x.getD q 0) ∧
    (maxAbsIndexK x < x.length ∧ (∀ q, q < maxAbsIndexK x → |x.getD q 0| < |x.getD (maxAbsIndexK x) 0|) ∧
      ∀ q, q < x.length → |x.getD q 0| ≤ |x.getD (maxAbsIndexK x) 0|) ∧
    (minAbsIndexK x < x.length ∧ (∀ q, q < minAbsIndexK x → |x.getD (minAbsIndexK x) 0| < |x.getD q 0|) ∧
      ∀ q, q < x.length → |x.getD (minAbsIndexK x) 0| ≤ |x.getD q 0|) :=
  ⟨maxIndexK_first x hne, minIndexK_first x hne, maxAbsIndexK_first x hne, minAbsIndexK_first x hne⟩

/-- BCSR `axpy` / `scale` act on the pod value array with the same kernels: entry `p` becomes `this_p + α·x_p` resp.
    `x_p·α`; different block-row/column/block counts are reported -/
theorem C03.matrix_axpy_scale_bcsr {α : Type} [CommRing α] (T X : Bcsr α) (alpha : α) (ali : Bool)
    (hal : ali = true → X = T) (hn : X.val.size = T.val.size) :
    (bSameShape X T = false → bcsrAxpy T X alpha ali = .error .dims ∧ bcsrScale T X alpha ali = .error .dims) ∧
    (bSameShape X T = true →
      (∃ l, bcsrAxpy T X alpha ali = .ok l ∧
        ∀ p, p < T.val.size → l.getD p 0 = T.val.toList.getD p 0 + alpha * X.val.toList.getD p 0) ∧
      (∃ l, bcsrScale T X alpha ali = .ok l ∧ ∀ p, p < T.val.size → l.getD p 0 = X.val.toList.getD p 0 * alpha)) := by
  refine ⟨fun hs => by simp [bcsrAxpy, bcsrScale, hs], fun hs => ⟨?_, ?_⟩⟩
  · refine ⟨axpyK ali alpha T.val.toList X.val.toList, by simp [bcsrAxpy, hs], fun p hp => ?_⟩
    exact axpyK_getD ali alpha _ _ (fun h => by rw [hal h]) (by simp [hn]) p (by simpa using hp)
  · refine ⟨scaleK ali alpha T.val.toList X.val.toList, by simp [bcsrScale, hs], fun p hp => ?_⟩
    exact scaleK_getD ali alpha _ _ (fun h => by rw [hal h]) (by simp [hn]) p (by simpa using hp)

/-- BCSR `norm_frobenius`² = the sum of the squares of all stored scalars; the extreme elements of a BCSR matrix are
    those of its pod value array (`C03.matrix_extreme_elements`, `C03.extreme_first_occurrence` apply verbatim) -/
theorem C03.frobenius_sq_bcsr {α : Type} [CommRing α] (A : Bcsr α) :
    bcsrFrobSq A = (A.val.toList.map fun v => v * v).sum := by
  simp [bcsrFrobSq, sumSq, sumL_eq_sum]

/-- the square root used by harness and driver (`q_sqrt` / `Proto.qsqrt`) is the true root rounded down to the grid
    `1/(den·2^40)`: `0 ≤ r`, `r² ≤ x < (r + 2^-40)²` for every `x ≥ 0` -/
theorem C03.qsqrt_floor (x : Rat) (hx : 0 ≤ x) :
    0 ≤ FeatModel.Proto.qsqrt x ∧ FeatModel.Proto.qsqrt x * FeatModel.Proto.qsqrt x ≤ x ∧
      x < (FeatModel.Proto.qsqrt x + 1 / 2 ^ 40) * (FeatModel.Proto.qsqrt x + 1 / 2 ^ 40) :=
  FeatModel.LA.MatAlg.qsqrt_floor x hx

/-- hence `norm_frobenius` (and every `row_norm2` entry, the same construction on one row) as printed by the driver
    brackets the true norm: `r² ≤ Σ v² < (r + 2^-40)²` -/
theorem C03.norm_frobenius_floor (A : Csr Rat) :
    FeatModel.Proto.qsqrt (csrFrobSq A) * FeatModel.Proto.qsqrt (csrFrobSq A) ≤ (A.val.toList.map fun v => v * v).sum ∧
    (A.val.toList.map fun v => v * v).sum <
      (FeatModel.Proto.qsqrt (csrFrobSq A) + 1 / 2 ^ 40) * (FeatModel.Proto.qsqrt (csrFrobSq A) + 1 / 2 ^ 40) := by
  have he := C03.frobenius_sq A
  have h0 : 0 ≤ csrFrobSq A := by
    rw [he]
    apply List.sum_nonneg
    intro v hv
    obtain ⟨u, _, rfl⟩ := List.mem_map.mp hv
    exact mul_self_nonneg u
  have := FeatModel.LA.MatAlg.qsqrt_floor (csrFrobSq A) h0
  rw [← he]
  exact ⟨this.2.1, this.2.2⟩

/-! ## every entry of the output vector is written; axpy / scale over the dense meaning; BCSR layout validity -/

/-- `lump_rows(lump)` on an ARBITRARY pre-filled vector: every position `i < rows` is overwritten with the row sum —
    in particular a row without stored entries gets 0, nothing of the old content survives; positions `≥ rows` (a longer
    vector) are untouched.  (`csrLumpInto` is what the driver executes on the harness' 777-filled vector.) -/
theorem C03.lump_writes_every_entry {α : Type} [CommRing α] (A : Csr α) (out0 : Array α) :
    (∀ i, (csrLumpInto out0 A)[i]? =
      if i < A.rows ∧ i < out0.size then some (((csrRow A i).map Prod.snd).sum) else out0[i]?) ∧
    (out0.size = A.rows → (csrLumpInto out0 A).toList = csrLump A) ∧
    (∀ i, csrRow A i = [] → (((csrRow A i).map Prod.snd).sum : α) = 0) := by
  refine ⟨fun i => ?_, fun h => ?_, fun i h => by rw [h]; rfl⟩
  · unfold csrLumpInto
    rw [writeAll_getElem?, lumpRow_eq_sum]
  · unfold csrLumpInto
    rw [writeAll_toList _ _ _ h]
    simp [csrLump, csrRows, List.map_map, Function.comp_def]

/-- `row_norm2sqr`, `row_norm2`, scaled `row_norm2sqr` (CSR) on an arbitrary pre-filled vector: every `i < rows` is
    overwritten (an empty row gets 0 resp. `sqrt 0`), and on a vector of `rows` entries the result is the list version
    that `C03.rowNorm2Sqr_dense` / `C03.rowNorm2SqrScaled_spec` describe -/
theorem C03.rowNorms_write_every_entry {α : Type} [CommRing α] (sqrt : α → α) (A : Csr α) (scal out0 : Array α) :
    (∀ i, (csrRowNorm2SqrInto out0 A)[i]? =
      if i < A.rows ∧ i < out0.size then some (((csrRow A i).map fun p => p.2 * p.2).sum) else out0[i]?) ∧
    (∀ i, (csrRowNorm2Into sqrt out0 A)[i]? =
      if i < A.rows ∧ i < out0.size then some (sqrt (((csrRow A i).map fun p => p.2 * p.2).sum)) else out0[i]?) ∧
    (out0.size = A.rows → (csrRowNorm2SqrInto out0 A).toList = csrRowNorm2Sqr A ∧
      (csrRowNorm2Into sqrt out0 A).toList = csrRowNorm2 sqrt A ∧
      (csrRowNorm2SqrScaledInto out0 A scal).toList = csrRowNorm2SqrScaled A scal) := by
  refine ⟨fun i => ?_, fun i => ?_, fun h => ⟨?_, ?_, ?_⟩⟩
  · unfold csrRowNorm2SqrInto; rw [writeAll_getElem?, rowNormSq_eq_sum]
  · unfold csrRowNorm2Into; rw [writeAll_getElem?, rowNormSq_eq_sum]
  · unfold csrRowNorm2SqrInto; rw [writeAll_toList _ _ _ h]
    simp [csrRowNorm2Sqr, csrRows, List.map_map, Function.comp_def]
  · unfold csrRowNorm2Into; rw [writeAll_toList _ _ _ h]
    simp [csrRowNorm2, csrRows, List.map_map, Function.comp_def]
  · unfold csrRowNorm2SqrScaledInto; rw [writeAll_toList _ _ _ h]; rfl

/-- BCSR `lump_rows` / `row_norm2sqr` (plain and scaled) / `row_norm2`: on a vector of `rows·bh` scalars the whole
    vector is overwritten with the list versions described by `C03.lump_bcsr`, `C03.bcsrRowNorm2Sqr_spec`,
    `C03.rowNorm2SqrScaled_bcsr`, `C03.bcsrRowNorm2_spec` (block rows without stored blocks get 0) -/
theorem C03.bcsr_row_members_write_every_entry {α : Type} [CommRing α] (sqrt : α → α) (A : Bcsr α) (sc : Option (Array α))
    (out0 : Array α) (h : out0.size = A.rows * A.bh) :
    (bcsrLumpInto out0 A).toList = bcsrLump A ∧
    (bcsrRowNorm2SqrInto out0 A sc).toList = bcsrRowNorm2Sqr A sc ∧
    (bcsrRowNorm2Into sqrt out0 A).toList = bcsrRowNorm2 sqrt A :=
  ⟨into_list _ _ (bcsrLump_length A) out0 h, into_list _ _ (bcsrRowNorm2Sqr_length A sc) out0 h,
    into_list _ _ (bcsrRowNorm2_length sqrt A) out0 h⟩

/-- **axpy over the dense meaning**: on equal layouts `⟦this'⟧_ij = ⟦this⟧_ij + α·⟦x⟧_ij` for every `(i, j)`
    (`withVal T l` = `this` with the new value array `l`); also when `x` is `*this` -/
theorem C03.matrix_axpy_dense {α : Type} [CommRing α] (T X : Csr α) (alpha : α) (ali : Bool) (hT : T.wf = true)
    (hr : X.rows = T.rows) (hcols : X.cols = T.cols) (hp : X.rowPtr = T.rowPtr) (hc : X.colInd = T.colInd)
    (hn : X.val.size = T.val.size) (hal : ali = true → X = T) :
    ∃ l, csrAxpy T X alpha ali = .ok l ∧
      ∀ i, i < T.rows → ∀ j, (withVal T l).entry i j = T.entry i j + alpha * X.entry i j := by
  have hs : sameShape X T = true := by simp [sameShape, Csr.usedElements, hr, hcols, hn]
  obtain ⟨l, h1, _, h3⟩ := C03.matrix_axpy_entrywise T X alpha ali hs hal
  refine ⟨l, h1, fun i hi j => ?_⟩
  have := entry_withVal_axpy ((Csr.wf_iff T).mp hT) hp hc hcols l 1 alpha (fun p hp' => by
    rw [h3 p hp', one_mul, toList_getD, toList_getD]) hi j
  rw [this, one_mul]

/-- **scale over the dense meaning**: on equal layouts `⟦this'⟧_ij = α·⟦x⟧_ij` -/
theorem C03.matrix_scale_dense {α : Type} [CommRing α] (T X : Csr α) (alpha : α) (ali : Bool) (hT : T.wf = true)
    (hr : X.rows = T.rows) (hcols : X.cols = T.cols) (hp : X.rowPtr = T.rowPtr) (hc : X.colInd = T.colInd)
    (hn : X.val.size = T.val.size) (hal : ali = true → X = T) :
    ∃ l, csrScale T X alpha ali = .ok l ∧ ∀ i, i < T.rows → ∀ j, (withVal T l).entry i j = alpha * X.entry i j := by
  have hs : sameShape X T = true := by simp [sameShape, Csr.usedElements, hr, hcols, hn]
  obtain ⟨l, h1, h3⟩ := C03.matrix_scale_entrywise T X alpha ali hs hal
  refine ⟨l, h1, fun i hi j => ?_⟩
  have := entry_withVal_axpy ((Csr.wf_iff T).mp hT) hp hc hcols l 0 alpha (fun p hp' => by
    rw [h3 p hp', zero_mul, zero_add, mul_comm, toList_getD]) hi j
  rw [this, zero_mul, zero_add]

/-- BCSR: `SortedCols` of every block row follows from C02's decidable layout validity `Bcsr.wf && Bcsr.sortedRows` -/
theorem C03.sortedCols_of_valid_bcsr {α : Type} [Zero α] (A : Bcsr α) (h1 : A.wf = true) (h2 : A.sortedRows = true) (i : Nat) :
    SortedCols (bcsrRow A i) :=
  sortedCols_of_sortedRows_bcsr A h1 h2 i

/-- outside the pattern of `X` nothing exists before or after a product: a returned row `r` (pattern = pattern of `X_i`,
    as every product theorem above states) has dense value 0 at every column `j` that `X_i` does not store — the product
    entries there were dropped (`allow_incomplete = true`) or the call aborted -/
theorem C03.product_outside_pattern {α : Type} [CommRing α] (X : Csr α) (i : Nat) (r : Row α)
    (hc : rowCols r = rowCols (csrRow X i)) (j : Nat) (hj : j ∉ rowCols (csrRow X i)) :
    rowVal r j = 0 ∧ rowVal (csrRow X i) j = 0 :=
  ⟨rowVal_of_not_mem r j (hc ▸ hj), rowVal_of_not_mem _ j hj⟩

/-! ## the hypotheses are satisfiable by non-trivial values -/

example : SortedCols ([(0, (1 : Int)), (2, 5), (3, 7)] : Row Int) := by simp [SortedCols, rowCols]
example : mergeRow true (updS (2 : Int)) [(0, 1), (2, 5), (3, 7)] [(1, 10), (2, 20), (4, 30)]
    = .ok [(0, 1), (2, 45), (3, 7)] := by simp [mergeRow, updS]
example : mergeRow false (updS (2 : Int)) [(0, 1), (2, 5), (3, 7)] [(1, 10), (2, 20)] = .error .incomplete := by
  simp [mergeRow]
example : mergeRow false (updS (2 : Int)) [(0, 1), (2, 5), (3, 7)] [(2, 20), (3, 1)] = .ok [(0, 1), (2, 45), (3, 9)] := by
  simp [mergeRow, updS]
