import FeatModel.Lemmas.C08Sweeps
import FeatModel.Lemmas.C08IluApply
import FeatModel.Lemmas.C08History
import FeatModel.Lemmas.C08Linear
import FeatModel.Lemmas.C08Poly
import FeatModel.Lemmas.C08Blocked
import FeatModel.Lemmas.C08IluFactor
import FeatModel.Lemmas.C08IluCopy
import FeatModel.Lemmas.C08IluCopyEq
import FeatModel.Lemmas.C08IluNumEq
import FeatModel.Lemmas.C08IluOffs
import FeatModel.Lemmas.C08IluBlocked
import FeatModel.Lemmas.C08IluSymbolic0
import FeatModel.Lemmas.C08IluSymbolic
import FeatModel.Lemmas.C08IluLevels
import FeatModel.Lemmas.C08Linear2
import FeatModel.Lemmas.C08Alias
import FeatModel.Lemmas.C08Filter
import FeatModel.Lemmas.C08IluNC
import FeatModel.Lemmas.C08Misc
import FeatModel.Lemmas.C08Tiny
import FeatModel.Lemmas.C08Expand
import FeatModel.Lemmas.C08IluPI
import FeatModel.Lemmas.C08IluPIMat
/-!
# C08 — preconditioners apply exactly their defining linear operator (property theorems)

All statements are about the model functions that `drv_c08` executes (`FeatModel.Solver.sorApply`, `ssorApply`,
`jacobiApply`/`invDiag`, `iluSolve`, `scaleApply`, `diagonalApply`, `initNumeric`, `applyStep`, `runSteps`); the
correspondence run ties them to `SORPrecond`, `SSORPrecond`, `JacobiPrecond`, `ILUPrecond` / `ILUCoreScalar`,
`ScalePrecond`, `DiagonalPrecond` of kernel/solver at the exact scalar type.  The dense meaning of a CSR matrix is
`Csr.entry i j`; `sortedDiag` is the documented precondition (square, sorted rows, stored diagonal); the correction
filter is `filterCor` (unit filter: listed components are set to zero).

Unbounded types.  The models use unbounded `Nat` / `Int` and exact field elements where the C++ uses machine types:
`Index` / `IT_` (64-bit here; FEAT also instantiates 32-bit `unsigned int`) for sizes, offsets and column indices;
`int` for the ILU fill level `p` and for the per-entry levels (`std::vector<int> new_lvl_*`, `ll = lj + lk + 1`); `Index`
for the polynomial degree `m`; template `int` block sizes (the `Tiny::Matrix` inverse has closed formulas up to 6×6 and
a generic elimination from 7×7 on); `SparseVector` (unit-filter entries) grows in 1000-slot steps; the scalar is the
exact rational `Q`, not `double`.  Narrowing, fixed-size scratch storage, allocation steps and code paths selected by
a size are therefore invisible to the theorems below; they are tied to the code only by the correspondence stream
`boundary-sizes` of `checks/props/c08.py` (matrix sizes, fill-in counts of one row, filter entry counts, fill levels,
polynomial degrees and block sizes just below / at / above 128, 256, 1000, (thorough) 32768, 65536, `INT_MAX`, 4..7),
compared with the model and the independent oracle like every other case.

Not proved here (observed by the correspondence run and the independent oracle only):
* that the driver's core-only block type `BMat bs` (row-major arrays, exact Gauss–Jordan / closed-formula inverse) is a
  ring isomorphic to `Matrix (Fin bs) (Fin bs) ℚ` — the blocked ILU / SOR / SSOR theorems are stated over abstract rings
  (and over Mathlib's matrix ring), the instance is tied by case-by-case comparison with the real BCSR code;
* `Tiny::set_inverse` for the block sizes 4..6 (closed cofactor formulas) and ≥ 7 (generic elimination): not modelled
  statement by statement (sizes 1..3 are, with `C08.tiny_inverse_spec`);
* the blocked `copy_data_bcsr` and the blocked symbolic phase are the scalar model functions run at block values (proved
  for any value type); blocked Jacobi / matrix / scale / diagonal are the scalar state machine on the expansion
  (`C08.expand_commutes` covers `apply` and `extract_diag`; `component_invert` / `scale` / `component_product` on blocked
  vectors are taken to act on the pod arrays);
* `C08.polynomial_spec` (Neumann sum) is proved for the unit / none filter types; with a mean filter inside the loop only
  the correspondence and the oracle check the result;
* floating-point rounding, the 32-bit index instantiations, Vanka / AmaVanka / Schwarz / Uzawa preconditioners.
-/
open Finset FeatModel.LA FeatModel.Solver

/-- the correction filter zeroes exactly the listed components and nothing else -/
theorem C08.filter_cor_spec {α : Type} [Zero α] (fidx : List Nat) (v : Array α) (i : Nat) :
    (filterCor fidx v).size = v.size ∧ (filterCor fidx v).getD i 0 = if i ∈ fidx then 0 else v.getD i 0 :=
  ⟨filterCor_size fidx v, filterCor_getD fidx v i⟩

/-- SOR: `apply` returns `F (D/ω + L)⁻¹ x`: the unfiltered sweep result `y` solves `(D/ω + L) y = x` exactly,
    for every size, pattern (sorted with stored diagonal), non-zero diagonal, ω ≠ 0 and filter. -/
theorem C08.sor_spec {α : Type} [Field α] (ω : α) (hω : ω ≠ 0) (fidx : List Nat) (A : Csr α)
    (hA : sortedDiag A = true) (hd : ∀ i, i < A.rows → A.entry i i ≠ 0) (x : Array α) (hx : x.size = A.rows) :
    ∃ y : Array α, y.size = A.rows ∧
      (∀ i, i < A.rows → A.entry i i / ω * y.getD i 0 + ∑ j ∈ range i, A.entry i j * y.getD j 0 = x.getD i 0) ∧
      (sorApply ω fidx A x).size = A.rows ∧
      ∀ i, (sorApply ω fidx A x).getD i 0 = if i ∈ fidx then 0 else y.getD i 0 := by
  obtain ⟨h1, h2⟩ := sorSweep_spec ω hω A hA hd x hx
  exact ⟨sorSweep ω A x, h1, h2, by unfold sorApply; rw [filterCor_size, h1], fun i => filterCor_getD _ _ i⟩

/-- SSOR: `apply` returns `F ω(2-ω) (D + ωU)⁻¹ D (D + ωL)⁻¹ x`: there are `y`, `z` with `(D + ωL) y = x`,
    `(D + ωU) z = D y`, and the output is the filtered `ω(2-ω) z`. -/
theorem C08.ssor_spec {α : Type} [Field α] (ω : α) (fidx : List Nat) (A : Csr α)
    (hA : sortedDiag A = true) (hd : ∀ i, i < A.rows → A.entry i i ≠ 0) (x : Array α) (hx : x.size = A.rows) :
    ∃ y z : Array α, y.size = A.rows ∧ z.size = A.rows ∧
      (∀ i, i < A.rows → A.entry i i * y.getD i 0 + ω * ∑ j ∈ range i, A.entry i j * y.getD j 0 = x.getD i 0) ∧
      (∀ i, i < A.rows → A.entry i i * z.getD i 0 + ω * ∑ j ∈ Ico (i + 1) A.rows, A.entry i j * z.getD j 0
          = A.entry i i * y.getD i 0) ∧
      (ssorApply ω fidx A x).size = A.rows ∧
      ∀ i, i < A.rows → (ssorApply ω fidx A x).getD i 0 = if i ∈ fidx then 0 else z.getD i 0 * (ω * (2 - ω)) := by
  obtain ⟨h1, h2⟩ := ssorFwd_spec ω A hA hd x hx
  obtain ⟨h3, h4⟩ := ssorBwd_spec ω A hA hd (ssorFwd ω A x) h1
  refine ⟨ssorFwd ω A x, ssorBwd ω A (ssorFwd ω A x), h1, h3, h2, h4, ?_, ?_⟩
  · unfold ssorApply ssorSweep; rw [filterCor_size, Array.size_map, h3]
  · intro i hi
    unfold ssorApply ssorSweep
    rw [filterCor_getD, getD_map _ _ _ (by rw [h3]; exact hi)]
    have : (1 + 1 : α) = 2 := by norm_num
    rw [this]

/-- Jacobi: after `init_numeric` (`_inv_diag = ω / a_ii`) `apply` returns `F ω D⁻¹ x`. -/
theorem C08.jacobi_spec {α : Type} [Field α] (ω : α) (fidx : List Nat) (A : Csr α) (hA : sortedDiag A = true)
    (x : Array α) (i : Nat) (hi : i < A.rows) :
    (jacobiApply fidx A.rows (invDiag ω A) x).getD i 0 = if i ∈ fidx then 0 else ω / A.entry i i * x.getD i 0 := by
  unfold jacobiApply compProd invDiag
  rw [filterCor_getD, getD_ofFn _ i hi, getD_map _ _ _ (by simp [extractDiag]; exact hi), extractDiag_getD A hA i hi]

/-- scaling preconditioner: `F (ω x)` -/
theorem C08.scale_spec {α : Type} [Field α] (ω : α) (fidx : List Nat) (x : Array α) (i : Nat) (hi : i < x.size) :
    (scaleApply ω fidx x).getD i 0 = if i ∈ fidx then 0 else ω * x.getD i 0 := by
  unfold scaleApply
  rw [filterCor_getD, getD_map _ _ _ hi, mul_comm]

/-- diagonal preconditioner: `F (d .* x)` -/
theorem C08.diagonal_spec {α : Type} [Field α] (fidx : List Nat) (d x : Array α) (i : Nat) (hi : i < x.size) :
    (diagonalApply fidx d x).getD i 0 = if i ∈ fidx then 0 else d.getD i 0 * x.getD i 0 := by
  unfold diagonalApply compProd
  rw [filterCor_getD, getD_ofFn _ i hi]

/-- polynomial preconditioner: `apply` never aborts on a square well-formed matrix and returns the filtered truncated
    Neumann series `F Σ_{k ≤ m} (I - M⁻¹ F A)^k M⁻¹ x` with `M⁻¹ = diag(_inv_diag)` (`= ω D⁻¹` after `init_numeric`,
    see `C08.jacobi_spec` / `extractDiag_getD`); `neumannTerm k` is the `k`-th term of the series. -/
theorem C08.polynomial_spec {α : Type} [Field α] (tiny : α → Bool) (ht0 : tiny 0 = true) (m : Nat) (fidx : List Nat)
    (A : Csr α) (hA : A.wf = true) (hsq : A.rows = A.cols) (invD x : Array α) :
    ∃ r, polyApply tiny m fidx A invD x = some r ∧ r.size = A.rows ∧
      ∀ i, i < A.rows →
        r.getD i 0 = if i ∈ fidx then 0 else ∑ k ∈ range (m + 1), neumannTerm fidx A invD x k i :=
  polyApply_spec tiny ht0 m fidx A hA hsq invD x

/-- square-blocked (BCSR) SOR, blocks in an arbitrary (non-commutative) ring `R` acting on a module `V`, scalars in a
    field `K`: the generic blocked sweep (`Blk.sorApply`, run by `drv_c08` at bs×bs rational matrices against the real
    BCSR code) returns the filtered solution of `(D/ω + L) y = x`, where `inv` only has to be a right inverse on the
    diagonal blocks. -/
theorem C08.sor_spec_blocked {K R V : Type} [Field K] [Ring R] [AddCommGroup V] [Module K V] [Module R V]
    [SMulCommClass K R V] (inv : R → R) (ω : K) (hω : ω ≠ 0) (fidx : List Nat) (A : Csr R) (hA : sortedDiag A = true)
    (hinv : ∀ i, i < A.rows → A.entry i i * inv (A.entry i i) = 1) (x : Array V) (hx : x.size = A.rows) :
    ∃ y : Array V, y.size = A.rows ∧
      (∀ i, i < A.rows →
        A.entry i i • (ω⁻¹ • y.getD i 0) + ∑ j ∈ range i, A.entry i j • y.getD j 0 = x.getD i 0) ∧
      ∀ i, (Blk.sorApply (Blk.modOps inv) ω fidx A x).getD i 0 = if i ∈ fidx then 0 else y.getD i 0 := by
  obtain ⟨h1, h2⟩ := Blk.sorSweep_spec inv ω hω A hA hinv x hx
  exact ⟨_, h1, h2, fun i => Blk.filterCor_getD inv fidx _ i⟩

/-- square-blocked (BCSR) SSOR over a non-commutative block ring: `(D + ωL) y = x`, `(D + ωU) z = D y`, and the
    output is the filtered `ω(2-ω) z`. -/
theorem C08.ssor_spec_blocked {K R V : Type} [Field K] [Ring R] [AddCommGroup V] [Module K V] [Module R V]
    [SMulCommClass K R V] (inv : R → R) (ω : K) (fidx : List Nat) (A : Csr R) (hA : sortedDiag A = true)
    (hinv : ∀ i, i < A.rows → A.entry i i * inv (A.entry i i) = 1) (x : Array V) (hx : x.size = A.rows) :
    ∃ y z : Array V, y.size = A.rows ∧ z.size = A.rows ∧
      (∀ i, i < A.rows →
        A.entry i i • y.getD i 0 + ω • ∑ j ∈ range i, A.entry i j • y.getD j 0 = x.getD i 0) ∧
      (∀ i, i < A.rows →
        A.entry i i • z.getD i 0 + ω • ∑ j ∈ Ico (i + 1) A.rows, A.entry i j • z.getD j 0
          = A.entry i i • y.getD i 0) ∧
      ∀ i, i < A.rows → (Blk.ssorApply (Blk.modOps inv) ω fidx A x).getD i 0
          = if i ∈ fidx then 0 else (ω * (2 - ω)) • z.getD i 0 := by
  obtain ⟨h1, h2⟩ := Blk.ssorFwd_spec inv ω A hA hinv x hx
  obtain ⟨h3, h4⟩ := Blk.ssorBwd_spec inv ω A hA hinv _ h1
  refine ⟨_, _, h1, h3, h2, h4, ?_⟩
  intro i hi
  have hm : ∀ (r : Array V) (f : V → V) (j : Nat), j < r.size → (r.map f).getD j 0 = f (r.getD j 0) := by
    intro r f j hj
    simp [Array.getD, hj]
  unfold Blk.ssorApply Blk.ssorSweep
  rw [Blk.filterCor_getD, hm _ _ _ (by rw [h3]; exact hi)]
  have : (1 + 1 : K) = 2 := by norm_num
  rw [this]
  rfl

/-- ILU, the two triangular solves of `apply` on the STORED factors, for any pattern of a well-shaped symbolic
    factorisation: `z = iluSolve …` satisfies `(D+U) z = y` and `(I+L) y = b`, i.e. `z = ((I+L)(D+U))⁻¹ b` with
    `D = diag(1 / dataD)`; the previous content `x0` of the output vector is irrelevant. -/
theorem C08.ilu_solve_spec {α : Type} [Field α] (s : IluSym) (hs : s.wf = true) (d : IluNum α)
    (hl : d.dataL.size = s.ciL.size) (hu : d.dataU.size = s.ciU.size)
    (hd : ∀ i, i < s.n → d.dataD.getD i 0 ≠ 0) (b x0 : Array α) (hb : b.size = s.n) (hx0 : x0.size = s.n) :
    (iluSolve s d b x0).size = s.n ∧
    ∃ y : Array α, y.size = s.n ∧
      (∀ i, i < s.n → y.getD i 0 + ∑ j ∈ range s.n, (s.matL d).entry i j * y.getD j 0 = b.getD i 0) ∧
      (∀ i, i < s.n → (iluSolve s d b x0).getD i 0 / d.dataD.getD i 0
          + ∑ j ∈ range s.n, (s.matU d).entry i j * (iluSolve s d b x0).getD j 0 = y.getD i 0) :=
  iluSolve_spec s hs d hl hu hd b x0 hb hx0

/-- **fill-ins are reset on every numeric factorisation.** `copy_data_csr` (index-faithful model, working in place on
    the data arrays of the object) writes every position of `dataL`, `dataU`, `dataD` — zero on the fill-in positions —
    so its result does not depend on the previous content (e.g. the factors of an earlier `init_numeric`); it only
    needs proper offset arrays, which `set_struct_csr` / `factorize_symbolic(p)` produce for every input. -/
theorem C08.copy_resets_fill {α : Type} [Field α] (s : IluSym) (h : s.OffsOk) (A : Csr α) (prev prev' : IluNum α)
    (hp : prev.Sz s) (hp' : prev'.Sz s) : copyDataCsr s A prev = copyDataCsr s A prev' :=
  FeatModel.Solver.copy_resets_fill s h A prev prev' hp hp'

/-- the offset arrays of the symbolic structure are proper for EVERY input matrix and every fill level `p`, and the
    data arrays allocated by `init_symbolic` fit them (so `C08.copy_resets_fill` always applies) -/
theorem C08.symbolic_offsets {α : Type} [Field α] (n : Nat) (rowPtr colInd : Array Nat) (s0 : IluSym)
    (h : setStructCsr n rowPtr colInd = some s0) (p : Int) :
    (factorizeSymbolic s0 p).OffsOk ∧ (factorizeSymbolic s0 p).n = n
      ∧ (allocData (factorizeSymbolic s0 p) : IluNum α).Sz (factorizeSymbolic s0 p) := by
  obtain ⟨h1, h2⟩ := setStructCsr_offsOk n rowPtr colInd s0 h
  obtain ⟨h3, h4⟩ := factorizeSymbolic_offsOk s0 h1 p
  exact ⟨h3, h4.trans h2, allocData_sz _⟩

/-- `init_numeric; apply` depends on the earlier life of the solver object only through what `init_symbolic`
    produced (sizes, ILU pattern): no stale inverted diagonal, stale factor or stale fill-in entry can influence the
    result. `StOk` (proper offsets, data arrays of matching size) is established by `init_symbolic` and kept by every
    step (`initSymbolic_stOk`, `initNumeric_stOk`). -/
theorem C08.init_numeric_refreshes {α : Type} [Field α] [DecidableEq α] (tiny : α → Bool) (c : Cfg α) (A : Csr α)
    (st st' : PState α) (h : st.invD.size = st'.invD.size ∧ st.iluS = st'.iluS) (hok : StOk st) (hok' : StOk st')
    (x : Array α) :
    (initNumeric c A st).bind (fun s => applyStep tiny c A s x)
      = (initNumeric c A st').bind (fun s => applyStep tiny c A s x) :=
  initNumeric_apply_indep tiny c A st st' h hok hok' x

/-- histories: after `init_symbolic` and ANY sequence of `init_numeric` / `apply` / value-update steps on one object
    (Jacobi, SOR, SSOR, polynomial, ILU(p), matrix), the steps `update v; init_numeric; apply x` return exactly what
    a brand-new object initialised on the matrix with the values `v` returns for `x`. -/
theorem C08.history_refresh {α : Type} [Field α] [DecidableEq α] (tiny : α → Bool) (c : Cfg α) (A : Csr α)
    (hist : List (Step α)) (hnum : ∀ s ∈ hist, s.numericPhase = true) (v x : Array α) (outs : List (Array α))
    (hrun : runSteps tiny c A PState.empty (.initSymbolic :: (hist ++ [.update v, .initNumeric, .apply x])) []
      = .ok outs) :
    ∃ y, outs.getLast? = some y ∧
      runSteps tiny c { A with val := v } PState.empty [.initSymbolic, .initNumeric, .apply x] [] = .ok [y] :=
  FeatModel.Solver.history_refresh tiny c A hist hnum v x outs hrun

/-- **history clause at full strength**, for every kind of the state machine (Jacobi, SOR, SSOR, polynomial, ILU(p),
    matrix, scale, diagonal) with the state each C++ object caches (`_inv_diag`; ILU structure + data arrays; nothing
    for the others): in ANY history `pre ++ init_symbolic :: mid ++ init_numeric :: tail ++ [apply x]` — `pre`
    arbitrary (value changes, `done`, re-initialisations, …), `mid` without `init_symbolic` / `done_symbolic` (any
    `init_numeric`, `done_numeric`, `apply`, in-place `apply`, value changes), `tail` only applies, so that the last
    `init_numeric` follows the last value change — the last `apply` returns exactly what a brand-new object returns on
    the CURRENT matrix values; nothing value-dependent survives from `init_symbolic` time or from an earlier
    `init_numeric`.  (The operator of the brand-new object is characterised by `C08.sor_spec`, `C08.ssor_spec`,
    `C08.jacobi_spec`, `C08.polynomial_spec`, `C08.ilu_solve_spec` + `C08.ilu_factor_full`, `C08.scale_spec`,
    `C08.diagonal_spec`; BCSR Jacobi / matrix / scale / diagonal objects run this same state machine on the expanded
    scalar matrix, BCSR ILU at the ring of blocks, BCSR SOR / SSOR are stateless.) -/
theorem C08.history_full {α : Type} [Field α] [DecidableEq α] (tiny : α → Bool) (c : Cfg α) (A : Csr α)
    (pre mid tail : List (Step α)) (hmid : ∀ s ∈ mid, s.numericPhase = true)
    (htail : ∀ s ∈ tail, s.applyOnly = true) (x : Array α) (outs : List (Array α))
    (hrun : runSteps tiny c A PState.empty
      (pre ++ (.initSymbolic :: (mid ++ (.initNumeric :: (tail ++ [.apply x]))))) [] = .ok outs) :
    ∃ y, outs.getLast? = some y ∧
      runSteps tiny c (matAfter A (pre ++ (.initSymbolic :: mid))) PState.empty
        [.initSymbolic, .initNumeric, .apply x] [] = .ok [y] :=
  FeatModel.Solver.history_full tiny c A pre mid tail hmid htail x outs hrun

/-- **filter clause**: `apply` is "operator, then the correction filter": the non-unit filter (`post`: none / mean /
    slip, the C06 filter models) is applied to the result of the core, and the core of every kind except the polynomial
    one (which additionally filters the defect inside its loop) is the unit filter applied LAST to the result of the
    same object without filter entries. -/
theorem C08.filter_clause {α : Type} [Field α] (tiny : α → Bool) (c : Cfg α) (A : Csr α) (st : PState α) (x : Array α)
    (hp : ∀ m, c.kind ≠ .poly m) :
    applyStep tiny c A st x
      = postFilter c ((applyCore tiny { c with fidx := [] } A st x).map (filterCor c.fidx)) := by
  unfold applyStep
  rw [applyCore_filter_last tiny c A st x hp]

/-- **in-place apply** `apply(v, v)` (the sweeps and `solve_il` then read their right-hand side from the array they
    overwrite): for every kind except the matrix preconditioner (whose `SparseMatrix::apply` refuses aliased vectors:
    modelled and observed as an abort) and ILU (next theorem) the in-place call returns exactly the out-of-place
    result. -/
theorem C08.apply_in_place {α : Type} [Field α] (tiny : α → Bool) (c : Cfg α) (A : Csr α) (st : PState α)
    (x : Array α) (hm : c.kind ≠ .matrix) (hilu : ∀ p, c.kind ≠ .ilu p) :
    applyInStep tiny c A st x = applyStep tiny c A st x :=
  applyInStep_eq tiny c A st x hm hilu

/-- in-place ILU apply: `solve_il(x, x)` then `solve_du(x, x)` agrees with the out-of-place call in every component -/
theorem C08.apply_in_place_ilu {α : Type} [Field α] (tiny : α → Bool) (c : Cfg α) (A : Csr α) (st : PState α)
    (x : Array α) (p : Int) (hk : c.kind = .ilu p) (s : IluSym) (hS : st.iluS = some s) (hs : s.wf = true)
    (hl : st.iluN.dataL.size = s.ciL.size) (hu : st.iluN.dataU.size = s.ciU.size)
    (hd : ∀ i, i < s.n → st.iluN.dataD.getD i 0 ≠ 0) (hx : x.size = s.n) :
    ∃ yIn yOut : Array α, applyInCore tiny c A st x = .ok yIn ∧ applyCore tiny c A st x = .ok yOut ∧
      yIn.size = s.n ∧ yOut.size = s.n ∧ ∀ i, i < s.n → yIn.getD i 0 = yOut.getD i 0 :=
  applyInCore_ilu tiny c A st x p hk s hS hs hl hu hd hx

/-- linearity of `apply` (incl. the filter) for the element-wise kinds -/
theorem C08.jacobi_scale_diagonal_linear {α : Type} [Field α] (ω : α) (fidx : List Nat) (n : Nat) (d : Array α)
    (a b : α) (x x' : Array α) (hx : x.size = n) (hx' : x'.size = n) (i : Nat) (hi : i < n) :
    (jacobiApply fidx n d (lincomb a b x x')).getD i 0
        = a * (jacobiApply fidx n d x).getD i 0 + b * (jacobiApply fidx n d x').getD i 0 ∧
    (scaleApply ω fidx (lincomb a b x x')).getD i 0
        = a * (scaleApply ω fidx x).getD i 0 + b * (scaleApply ω fidx x').getD i 0 ∧
    (diagonalApply fidx d (lincomb a b x x')).getD i 0
        = a * (diagonalApply fidx d x).getD i 0 + b * (diagonalApply fidx d x').getD i 0 :=
  ⟨jacobiApply_linear fidx n d a b x x' hx hx' i hi, scaleApply_linear ω fidx n a b x x' hx hx' i hi,
    diagonalApply_linear fidx n d a b x x' hx hx' i hi⟩

/-- linearity of the SOR / SSOR `apply` including the filter (and the `ω(2-ω)` scaling) -/
theorem C08.sor_ssor_apply_linear {α : Type} [Field α] (ω : α) (hω : ω ≠ 0) (fidx : List Nat) (A : Csr α)
    (hA : sortedDiag A = true) (hd : ∀ i, i < A.rows → A.entry i i ≠ 0) (a b : α) (x x' : Array α)
    (hx : x.size = A.rows) (hx' : x'.size = A.rows) (i : Nat) (hi : i < A.rows) :
    (sorApply ω fidx A (lincomb a b x x')).getD i 0
        = a * (sorApply ω fidx A x).getD i 0 + b * (sorApply ω fidx A x').getD i 0 ∧
    (ssorApply ω fidx A (lincomb a b x x')).getD i 0
        = a * (ssorApply ω fidx A x).getD i 0 + b * (ssorApply ω fidx A x').getD i 0 :=
  ⟨sorApply_linear ω hω fidx A hA hd a b x x' hx hx' i hi, ssorApply_linear ω fidx A hA hd a b x x' hx hx' i hi⟩

/-- the ILU solve is linear in the right-hand side and independent of the previous content of the output vector -/
theorem C08.ilu_linear {α : Type} [Field α] (s : IluSym) (hs : s.wf = true) (d : IluNum α)
    (hl : d.dataL.size = s.ciL.size) (hu : d.dataU.size = s.ciU.size)
    (hd : ∀ i, i < s.n → d.dataD.getD i 0 ≠ 0) (a b : α) (x x' x0'' x0 x0' : Array α)
    (hx : x.size = s.n) (hx' : x'.size = s.n)
    (h0'' : x0''.size = s.n) (h0 : x0.size = s.n) (h0' : x0'.size = s.n) (i : Nat) (hi : i < s.n) :
    (iluSolve s d (lincomb a b x x') x0'').getD i 0
      = a * (iluSolve s d x x0).getD i 0 + b * (iluSolve s d x' x0').getD i 0 :=
  iluSolve_linear s hs d hl hu hd a b x x' x0'' x0 x0' hx hx' h0'' h0 h0' i hi

/-- matrix and polynomial preconditioners are linear (and never abort on matching sizes) -/
theorem C08.matrix_polynomial_linear {α : Type} [Field α] (tiny : α → Bool) (ht0 : tiny 0 = true) (m : Nat)
    (fidx : List Nat) (A : Csr α) (hA : A.wf = true) (hsq : A.rows = A.cols) (invD : Array α) (a b : α)
    (x x' : Array α) (hx : x.size = A.rows) (hx' : x'.size = A.rows) :
    (∃ r r' r'', matrixApply tiny fidx A x = some r ∧ matrixApply tiny fidx A x' = some r'
      ∧ matrixApply tiny fidx A (lincomb a b x x') = some r''
      ∧ ∀ i, i < A.rows → r''.getD i 0 = a * r.getD i 0 + b * r'.getD i 0) ∧
    (∃ r r' r'', polyApply tiny m fidx A invD x = some r ∧ polyApply tiny m fidx A invD x' = some r'
      ∧ polyApply tiny m fidx A invD (lincomb a b x x') = some r''
      ∧ ∀ i, i < A.rows → r''.getD i 0 = a * r.getD i 0 + b * r'.getD i 0) :=
  ⟨matrixApply_linear tiny ht0 fidx A hA a b x x' (hsq ▸ hx) (hsq ▸ hx'),
    polyApply_linear tiny ht0 m fidx A hA hsq invD a b x x' hx hx'⟩

/-- blocked (BCSR) SOR / SSOR `apply` are linear, over an arbitrary block ring with two-sided inverses of the diagonal
    blocks -/
theorem C08.sor_ssor_linear_blocked {K R V : Type} [Field K] [Ring R] [AddCommGroup V] [Module K V] [Module R V]
    [SMulCommClass K R V] (inv : R → R) (ω : K) (hω : ω ≠ 0) (fidx : List Nat) (A : Csr R) (hA : sortedDiag A = true)
    (hinv : ∀ i, i < A.rows → A.entry i i * inv (A.entry i i) = 1 ∧ inv (A.entry i i) * A.entry i i = 1)
    (a b : K) (x x' : Array V) (hx : x.size = A.rows) (hx' : x'.size = A.rows) (i : Nat) (hi : i < A.rows) :
    (Blk.sorApply (Blk.modOps inv) ω fidx A (Blk.lincombV a b x x')).getD i 0
        = a • (Blk.sorApply (Blk.modOps inv) ω fidx A x).getD i 0
          + b • (Blk.sorApply (Blk.modOps inv) ω fidx A x').getD i 0 ∧
    (Blk.ssorApply (Blk.modOps inv) ω fidx A (Blk.lincombV a b x x')).getD i 0
        = a • (Blk.ssorApply (Blk.modOps inv) ω fidx A x).getD i 0
          + b • (Blk.ssorApply (Blk.modOps inv) ω fidx A x').getD i 0 :=
  ⟨Blk.sorApply_linear inv ω hω fidx A hA hinv a b x x' hx hx' i hi,
    Blk.ssorApply_linear inv ω fidx A hA hinv a b x x' hx hx' i hi⟩

/-- blocked ILU, exactness of the factorisation for a ring with PARTIAL inverses (the situation of bs×bs blocks, `1 / ·`
    being `Tiny::set_inverse`): the executed `factorizeNumeric` (merge pointers, `L_ij ← L_ij · D_jj⁻¹` from the right,
    `w_ik -= L_ij · U_jk`, `D_ii ← 1 / D_ii`, all products in the order of the code) satisfies
    `((I+L)(D+U))_{ic} = (input)_{ic}` on the pattern, provided (`hpiv`, DECIDABLE, evaluated by `drv_c08` on every blocked
    ILU case) every stored inverted pivot block `v` is invertible with inverse `1 / v`, and (`hlaw`) the inversion routine
    is an honest partial inverse ("if `1 / x` is invertible with inverse `1 / (1 / x)`, then it is the inverse of `x`").
    Division rings satisfy `hlaw` (`PI.invLaw_divisionRing`), and so do genuine matrix blocks, see the next theorem. -/
theorem C08.ilu_factor_blocked {α : Type} [Ring α] [Div α] (s : IluSym) (hs : s.wf = true) (hso : s.sorted = true)
    (d0 : IluNum α) (hl : d0.dataL.size = s.ciL.size) (hu : d0.dataU.size = s.ciU.size) (hdd : d0.dataD.size = s.n)
    (hlaw : ∀ x : α, ((1 / x) * (1 / (1 / x)) = 1 ∧ (1 / (1 / x)) * (1 / x) = 1) →
      (x * (1 / x) = 1 ∧ (1 / x) * x = 1))
    (hpiv : ∀ i, i < s.n → let v := (factorizeNumeric s d0).dataD.getD i 0; v * (1 / v) = 1 ∧ (1 / v) * v = 1)
    (i c : Nat) (hi : i < s.n) (hc : c < s.n) (hp : s.inPattern i c) :
    ∑ k ∈ range (min i c), (s.matL (factorizeNumeric s d0)).entry i k * (s.matU (factorizeNumeric s d0)).entry k c
      + (if c < i then (s.matL (factorizeNumeric s d0)).entry i c * (1 / (factorizeNumeric s d0).dataD.getD c 0)
         else if c = i then 1 / (factorizeNumeric s d0).dataD.getD i 0
         else (s.matU (factorizeNumeric s d0)).entry i c)
      = s.dense d0 i c :=
  PI.ilu_factor_pi s hs hso d0 hl hu hdd hlaw hpiv i c hi hc hp

/-- the same for GENUINE matrix blocks `Matrix (Fin bs) (Fin bs) K` over a field (with `x / y = x · y⁻¹`, Mathlib's
    total inverse): only the decidable pivot hypothesis remains.  (The driver runs the model at its own core-only block
    type `BMat bs` = row-major arrays with an exact inverse; that `BMat bs` is ring-isomorphic to this matrix ring is
    not proved, it is what the case-by-case comparison with the real BCSR code and the dense oracle checks.) -/
theorem C08.ilu_factor_matrix_blocks {bs : Nat} {K : Type} [Field K] (s : IluSym) (hs : s.wf = true)
    (hso : s.sorted = true) (d0 : IluNum (PI.MatBlock bs K))
    (hl : d0.dataL.size = s.ciL.size) (hu : d0.dataU.size = s.ciU.size) (hdd : d0.dataD.size = s.n)
    (hpiv : ∀ i, i < s.n → let v := (factorizeNumeric s d0).dataD.getD i 0; v * (1 / v) = 1 ∧ (1 / v) * v = 1)
    (i c : Nat) (hi : i < s.n) (hc : c < s.n) (hp : s.inPattern i c) :
    ∑ k ∈ range (min i c), (s.matL (factorizeNumeric s d0)).entry i k * (s.matU (factorizeNumeric s d0)).entry k c
      + (if c < i then (s.matL (factorizeNumeric s d0)).entry i c * (1 / (factorizeNumeric s d0).dataD.getD c 0)
         else if c = i then 1 / (factorizeNumeric s d0).dataD.getD i 0
         else (s.matU (factorizeNumeric s d0)).entry i c)
      = s.dense d0 i c :=
  PI.ilu_factor_matBlock s hs hso d0 hl hu hdd hpiv i c hi hc hp

/-- **BCSR → scalar expansion commutes with apply.**  The blocked Jacobi / matrix / scale / diagonal objects are modelled
    by running the scalar state machine on `expandCsr bs A`; this is justified against the C01 model of the BCSR
    container: the expanded CSR matrix is well-formed, `SparseMatrixCSR::apply` on it returns exactly what
    `SparseMatrixBCSR::apply` (`Bcsr.apply`, C01) returns, and `extract_diag` of the expansion is the pointwise diagonal
    of the diagonal blocks (what the blocked `extract_diag` reads), for sorted block rows with stored diagonal block. -/
theorem C08.expand_commutes {α : Type} [Field α] (tiny : α → Bool) (ht0 : tiny 0 = true) (bs : Nat) (A : Csr α)
    (hB : (asBcsr bs A).wf = true) (hbs : 0 < bs) (x r : Array α) (hr : r.size = A.rows * bs)
    (hx : x.size = A.cols * bs) :
    (expandCsr bs A).wf = true ∧
    (expandCsr bs A).apply tiny x r false = (asBcsr bs A).apply tiny x r false ∧
    (A.rows = A.cols →
      (∀ i, i < A.rows → ∀ k, A.rowPtr.getD i 0 ≤ k → k + 1 < A.rowPtr.getD (i + 1) 0 →
        A.colInd.getD k 0 < A.colInd.getD (k + 1) 0) →
      (∀ i, i < A.rows → ∃ k, A.rowPtr.getD i 0 ≤ k ∧ k < A.rowPtr.getD (i + 1) 0 ∧ A.colInd.getD k 0 = i) →
      sortedDiag (expandCsr bs A) = true ∧
      ∀ p, p < A.rows * bs → (extractDiag (expandCsr bs A)).getD p 0 = (asBcsr bs A).entry p p) :=
  ⟨expandCsr_wf bs A hB hbs, expand_apply_eq tiny ht0 bs A hB hbs x r hr hx,
    fun hsq hso hd => ⟨expandCsr_sortedDiag bs A hB hbs hsq hso hd,
      fun p hp => expandCsr_extractDiag bs A hB hbs hsq hso hd p hp⟩⟩

/-- **the input is not modified.**  `applyIO` is the pair of arrays (correction vector, defect vector) after
    `apply(vec_cor, vec_def)`: for the out-of-place call the defect vector comes back exactly as passed in, for every
    kind, state and filter, and the correction vector is the `applyStep` result all other theorems are about.  (On the
    C++ side the harness compares the input vector and all matrix arrays bit by bit after every apply: flag `U1`.) -/
theorem C08.input_not_modified {α : Type} [Field α] (tiny : α → Bool) (c : Cfg α) (A : Csr α) (st : PState α)
    (x y x' : Array α) (h : applyIO tiny c A st false x = .ok (y, x')) :
    x' = x ∧ applyStep tiny c A st x = .ok y :=
  applyIO_input_unchanged tiny c A st x y x' h

/-- the polynomial preconditioner the state machine runs (`polyApplyF`, with the `filter_def` of a mean filter inside
    its loop) is the one of `C08.polynomial_spec` whenever that extra defect filter is the identity (unit / none
    filters) -/
theorem C08.polynomial_filter_link {α : Type} [Field α] (tiny : α → Bool) (m : Nat) (fidx : List Nat) (A : Csr α)
    (invD x : Array α) : polyApplyF tiny m fidx some A invD x = polyApply tiny m fidx A invD x :=
  polyApplyF_some tiny m fidx A invD x

/-- `Tiny::Matrix::set_inverse` for the block sizes 1, 2, 3 (closed formulas of `Intern::InverseHelper`, modelled
    statement by statement in `tinyInv` and run by the driver for these sizes): if the determinant it divides by is
    non-zero, result · A = I and A · result = I. -/
theorem C08.tiny_inverse_spec {α : Type} [Field α] (n : Nat) (hn : n = 1 ∨ n = 2 ∨ n = 3)
    (other : Array α → Array α) (a : Array α) (hdet : tinyDet n a ≠ 0) (i j : Nat) (hi : i < n) (hj : j < n) :
    (∑ k ∈ range n, (tinyInv n other a).getD (i * n + k) 0 * a.getD (k * n + j) 0) = (if i = j then 1 else 0) ∧
    (∑ k ∈ range n, a.getD (i * n + k) 0 * (tinyInv n other a).getD (k * n + j) 0) = (if i = j then 1 else 0) :=
  FeatModel.Solver.tiny_inverse_spec n hn other a hdet i j hi hj

/-- SOR is linear in the input -/
theorem C08.sor_linear {α : Type} [Field α] (ω : α) (hω : ω ≠ 0) (A : Csr α) (hA : sortedDiag A = true)
    (hd : ∀ i, i < A.rows → A.entry i i ≠ 0) (a b : α) (x x' : Array α) (hx : x.size = A.rows)
    (hx' : x'.size = A.rows) (i : Nat) (hi : i < A.rows) :
    (sorSweep ω A (lincomb a b x x')).getD i 0 = a * (sorSweep ω A x).getD i 0 + b * (sorSweep ω A x').getD i 0 :=
  sorSweep_linear ω hω A hA hd a b x x' hx hx' i hi

/-- SSOR is linear in the input -/
theorem C08.ssor_linear {α : Type} [Field α] (ω : α) (A : Csr α) (hA : sortedDiag A = true)
    (hd : ∀ i, i < A.rows → A.entry i i ≠ 0) (a b : α) (x x' : Array α) (hx : x.size = A.rows)
    (hx' : x'.size = A.rows) (i : Nat) (hi : i < A.rows) :
    (ssorSweep ω A (lincomb a b x x')).getD i 0
      = a * (ssorSweep ω A x).getD i 0 + b * (ssorSweep ω A x').getD i 0 :=
  ssorSweep_linear ω A hA hd a b x x' hx hx' i hi

/-- ILU(p) numeric factorisation: `L·U = A` on the symbolic pattern, for every size, every (well-shaped, sorted)
    pattern — level 0, level p or anything else — and every matrix with sorted rows and stored diagonal:
    with `f = factorize_numeric_il_du (copy_data_csr A)`, `D = 1 / f.dataD` and non-zero pivots,
    `((I+L)(D+U))_{ic} = A_{ic}` for every `(i, c)` of the pattern.
    Stated for the find-based formulations `copyDataCsrS` / `factorizeNumericS` of the two loops (the merge pointers
    `ra`, `pl`, `pu` of the C++ replaced by a column search); `C08.ilu_factor` below transfers it to the index-faithful
    `copyDataCsr` / `factorizeNumeric` (proved equal; `drv_c08` additionally runs both side by side on every case). -/
theorem C08.ilu_factor_findbased {α : Type} [Field α] (s : IluSym) (hs : s.wf = true) (hso : s.sorted = true)
    (A : Csr α) (hA : sortedDiag A = true) (hn : s.n = A.rows)
    (hpiv : ∀ i, i < s.n → (factorizeNumericS s (copyDataCsrS s A)).dataD.getD i 0 ≠ 0)
    (i c : Nat) (hi : i < s.n) (hc : c < s.n) (hp : s.inPattern i c) :
    ∑ k ∈ range (min i c), (s.matL (factorizeNumericS s (copyDataCsrS s A))).entry i k
        * (s.matU (factorizeNumericS s (copyDataCsrS s A))).entry k c
      + (if c < i then (s.matL (factorizeNumericS s (copyDataCsrS s A))).entry i c
            * (1 / (factorizeNumericS s (copyDataCsrS s A)).dataD.getD c 0)
         else if c = i then 1 / (factorizeNumericS s (copyDataCsrS s A)).dataD.getD i 0
         else (s.matU (factorizeNumericS s (copyDataCsrS s A))).entry i c)
      = A.entry i c := by
  obtain ⟨z1, z2, z3⟩ := copyDataCsrS_sizes s A
  rw [factorizeNumericS_spec s hs hso (copyDataCsrS s A) z1 z2 z3 hpiv i c hi hc hp]
  have w := IluSym.WFP.of_bool s hs hso
  unfold IluSym.dense
  rcases hp with h | ⟨k, k1, k2, h⟩ | ⟨k, k1, k2, h⟩
  · subst h
    rw [if_neg (Nat.lt_irrefl _), if_pos rfl]
    exact copyDataCsrS_D s A hA hn c hi
  · have hlt : c < i := h ▸ w.lowL i hi k k1 k2
    rw [if_pos hlt, ← h]
    exact copyDataCsrS_L s hs hso A hA hn i hi k k1 k2
  · have hgt : i < c := h ▸ w.uppU i hi k k1 k2
    rw [if_neg (by omega), if_neg (by omega), ← h]
    exact copyDataCsrS_U s hs hso A hA hn i hi k k1 k2

/-- ILU numeric factorisation, about the INDEX-FAITHFUL model functions the driver executes (`copyDataCsr` with the
    moving pointer `ra` working in place on the object's arrays, `factorizeNumeric` with the merge pointers `pl`, `pu`,
    `k` and the early `break`): for every well-shaped sorted pattern `s` that contains the pattern of `A`, every previous
    content `prev` of the data arrays and non-zero pivots, `((I+L)(D+U))_{ic} = A_{ic}` on the pattern.
    (Proved via `copyDataCsr_eq_S`, `factorizeNumeric_eq_S`: the merge-pointer loops equal their find-based
    formulations, and `C08.ilu_factor_findbased`.) -/
theorem C08.ilu_factor {α : Type} [Field α] (s : IluSym) (hs : s.wf = true) (hso : s.sorted = true)
    (A : Csr α) (hA : sortedDiag A = true) (hn : s.n = A.rows) (hcov : s.covers A = true)
    (prev : IluNum α) (hprev : prev.Sz s)
    (hpiv : ∀ i, i < s.n → (factorizeNumeric s (copyDataCsr s A prev)).dataD.getD i 0 ≠ 0)
    (i c : Nat) (hi : i < s.n) (hc : c < s.n) (hp : s.inPattern i c) :
    ∑ k ∈ range (min i c), (s.matL (factorizeNumeric s (copyDataCsr s A prev))).entry i k
        * (s.matU (factorizeNumeric s (copyDataCsr s A prev))).entry k c
      + (if c < i then (s.matL (factorizeNumeric s (copyDataCsr s A prev))).entry i c
            * (1 / (factorizeNumeric s (copyDataCsr s A prev)).dataD.getD c 0)
         else if c = i then 1 / (factorizeNumeric s (copyDataCsr s A prev)).dataD.getD i 0
         else (s.matU (factorizeNumeric s (copyDataCsr s A prev))).entry i c)
      = A.entry i c := by
  have e1 : copyDataCsr s A prev = copyDataCsrS s A := copyDataCsr_eq_S s hs hso A hA hn hcov prev hprev
  have e2 : factorizeNumeric s (copyDataCsrS s A) = factorizeNumericS s (copyDataCsrS s A) :=
    factorizeNumeric_eq_S s hs hso _ (copyDataCsrS_sizes s A)
  rw [e1, e2] at hpiv ⊢
  exact C08.ilu_factor_findbased s hs hso A hA hn hpiv i c hi hc hp

/-- complete factorisation: if the pattern is full (every `(i, c)` is in it), `(I+L)(D+U) = A` everywhere, i.e. the
    ILU solve of `C08.ilu_solve_spec` is the exact inverse -/
theorem C08.ilu_complete {α : Type} [Field α] (s : IluSym) (hs : s.wf = true) (hso : s.sorted = true)
    (A : Csr α) (hA : sortedDiag A = true) (hn : s.n = A.rows) (hcov : s.covers A = true)
    (prev : IluNum α) (hprev : prev.Sz s)
    (hfull : ∀ i c, i < s.n → c < s.n → s.inPattern i c)
    (hpiv : ∀ i, i < s.n → (factorizeNumeric s (copyDataCsr s A prev)).dataD.getD i 0 ≠ 0)
    (i c : Nat) (hi : i < s.n) (hc : c < s.n) :
    ∑ k ∈ range (min i c), (s.matL (factorizeNumeric s (copyDataCsr s A prev))).entry i k
        * (s.matU (factorizeNumeric s (copyDataCsr s A prev))).entry k c
      + (if c < i then (s.matL (factorizeNumeric s (copyDataCsr s A prev))).entry i c
            * (1 / (factorizeNumeric s (copyDataCsr s A prev)).dataD.getD c 0)
         else if c = i then 1 / (factorizeNumeric s (copyDataCsr s A prev)).dataD.getD i 0
         else (s.matU (factorizeNumeric s (copyDataCsr s A prev))).entry i c)
      = A.entry i c :=
  C08.ilu_factor s hs hso A hA hn hcov prev hprev hpiv i c hi hc (hfull i c hi hc)

/-- level bookkeeping of `_insert`: on a sorted row region, re-inserting a column never raises its level — the entry
    ends up with the MINIMUM of its old level and the new one (the new one if it was absent), all other columns keep
    their levels, and the index / level arrays stay aligned. -/
theorem C08.insert_keeps_min_level (idx lvl : Array Nat) (b start c l : Nat) (hsz : lvl.size = idx.size)
    (hb : b ≤ start) (hstart : start ≤ idx.size)
    (hsorted : ∀ k, b ≤ k → k + 1 < idx.size → idx.getD k 0 < idx.getD (k + 1) 0)
    (hbefore : ∀ k, b ≤ k → k < start → idx.getD k 0 < c) :
    (insertEntry idx lvl start c l).2.1.size = (insertEntry idx lvl start c l).1.size ∧
    regionLevel (insertEntry idx lvl start c l).1 (insertEntry idx lvl start c l).2.1 b c
      = levMin (regionLevel idx lvl b c) (some l) ∧
    ∀ x, x ≠ c → regionLevel (insertEntry idx lvl start c l).1 (insertEntry idx lvl start c l).2.1 b x
      = regionLevel idx lvl b x :=
  insertEntry_levels idx lvl b start c l hsz hb hstart hsorted hbefore

/-- SYMBOLIC ILU(p): for every matrix with sorted rows and stored diagonal and EVERY fill level `p`, `set_struct_csr`
    does not throw and `factorize_symbolic(p)` yields a well-shaped structure (`wf`: proper offsets, `L` strictly lower,
    `U` strictly upper, columns in range) with strictly increasing (hence duplicate-free) rows that contains the pattern
    of the matrix, and its pattern is EXACTLY the textbook level-of-fill-`p` pattern: `(i, j)` is stored iff its level
    `levelOf p` (`lev = 0` on the matrix pattern, `lev(i,j) = min(lev(i,j), lev(i,k) + lev(k,j) + 1)` over the pivots
    `k < min(i,j)` in ascending order, levels above `p` dropped) exists. -/
theorem C08.ilu_symbolic {α : Type} (A : Csr α) (hA : sortedDiag A = true) (p : Int) :
    ∃ s0, setStructCsr A.rows A.rowPtr A.colInd = some s0 ∧ (factorizeSymbolic s0 p).n = A.rows
      ∧ (factorizeSymbolic s0 p).wf = true ∧ (factorizeSymbolic s0 p).sorted = true
      ∧ (factorizeSymbolic s0 p).covers A = true
      ∧ ∀ i j, i < A.rows → j < A.rows →
          ((factorizeSymbolic s0 p).inPattern i j ↔ (levelOf p.toNat s0 i j).isSome = true) := by
  obtain ⟨s0, h0, hn, hw, hs, hc⟩ := setStructCsr_spec A hA
  obtain ⟨g1, g2, g3, g4⟩ := factorizeSymbolic_spec (α := α) s0 hw hs p
  exact ⟨s0, h0, g1.trans hn, g2, g3, g4 A hc,
    fun i j hi hj => factorizeSymbolic_levels s0 hw hs p i j (hn ▸ hi) (hn ▸ hj)⟩

/-- the ILU factor clause for the whole executed chain `set_struct_csr → factorize_symbolic(p) → copy_data_csr (in
    place, any previous content) → factorize_numeric_il_du`: for every matrix with sorted rows and stored diagonal,
    every fill level `p` and non-zero pivots, `((I+L)(D+U))_{ic} = A_{ic}` for every `(i, c)` of the level-`p` pattern. -/
theorem C08.ilu_factor_full {α : Type} [Field α] (p : Int) (A : Csr α) (hA : sortedDiag A = true) (s0 : IluSym)
    (h0 : setStructCsr A.rows A.rowPtr A.colInd = some s0) (prev : IluNum α) (hprev : prev.Sz (factorizeSymbolic s0 p))
    (hpiv : ∀ i, i < (factorizeSymbolic s0 p).n →
      (factorizeNumeric (factorizeSymbolic s0 p) (copyDataCsr (factorizeSymbolic s0 p) A prev)).dataD.getD i 0 ≠ 0)
    (i c : Nat) (hi : i < (factorizeSymbolic s0 p).n) (hc : c < (factorizeSymbolic s0 p).n)
    (hp : (factorizeSymbolic s0 p).inPattern i c) :
    ∑ k ∈ range (min i c),
        ((factorizeSymbolic s0 p).matL
            (factorizeNumeric (factorizeSymbolic s0 p) (copyDataCsr (factorizeSymbolic s0 p) A prev))).entry i k
        * ((factorizeSymbolic s0 p).matU
            (factorizeNumeric (factorizeSymbolic s0 p) (copyDataCsr (factorizeSymbolic s0 p) A prev))).entry k c
      + (if c < i then ((factorizeSymbolic s0 p).matL
              (factorizeNumeric (factorizeSymbolic s0 p) (copyDataCsr (factorizeSymbolic s0 p) A prev))).entry i c
            * (1 / (factorizeNumeric (factorizeSymbolic s0 p)
                (copyDataCsr (factorizeSymbolic s0 p) A prev)).dataD.getD c 0)
         else if c = i then 1 / (factorizeNumeric (factorizeSymbolic s0 p)
                (copyDataCsr (factorizeSymbolic s0 p) A prev)).dataD.getD i 0
         else ((factorizeSymbolic s0 p).matU
              (factorizeNumeric (factorizeSymbolic s0 p) (copyDataCsr (factorizeSymbolic s0 p) A prev))).entry i c)
      = A.entry i c := by
  obtain ⟨s0', h0', hn, hw, hs, hcov, _⟩ := C08.ilu_symbolic A hA p
  rw [h0] at h0'
  cases h0'
  exact C08.ilu_factor _ hw hs A hA hn hcov prev hprev hpiv i c hi hc hp

/-- "ILU(p) is exact once level `p` is complete": if every position has a level `≤ p` in the textbook table, the
    executed chain yields `(I+L)(D+U) = A` EVERYWHERE (so the solve of `C08.ilu_solve_spec` is `A⁻¹`). -/
theorem C08.ilu_complete_at_level {α : Type} [Field α] (p : Int) (A : Csr α) (hA : sortedDiag A = true) (s0 : IluSym)
    (h0 : setStructCsr A.rows A.rowPtr A.colInd = some s0)
    (hlev : ∀ i j, i < A.rows → j < A.rows → (levelOf p.toNat s0 i j).isSome = true)
    (prev : IluNum α) (hprev : prev.Sz (factorizeSymbolic s0 p))
    (hpiv : ∀ i, i < (factorizeSymbolic s0 p).n →
      (factorizeNumeric (factorizeSymbolic s0 p) (copyDataCsr (factorizeSymbolic s0 p) A prev)).dataD.getD i 0 ≠ 0)
    (i c : Nat) (hi : i < (factorizeSymbolic s0 p).n) (hc : c < (factorizeSymbolic s0 p).n) :
    ∑ k ∈ range (min i c),
        ((factorizeSymbolic s0 p).matL
            (factorizeNumeric (factorizeSymbolic s0 p) (copyDataCsr (factorizeSymbolic s0 p) A prev))).entry i k
        * ((factorizeSymbolic s0 p).matU
            (factorizeNumeric (factorizeSymbolic s0 p) (copyDataCsr (factorizeSymbolic s0 p) A prev))).entry k c
      + (if c < i then ((factorizeSymbolic s0 p).matL
              (factorizeNumeric (factorizeSymbolic s0 p) (copyDataCsr (factorizeSymbolic s0 p) A prev))).entry i c
            * (1 / (factorizeNumeric (factorizeSymbolic s0 p)
                (copyDataCsr (factorizeSymbolic s0 p) A prev)).dataD.getD c 0)
         else if c = i then 1 / (factorizeNumeric (factorizeSymbolic s0 p)
                (copyDataCsr (factorizeSymbolic s0 p) A prev)).dataD.getD i 0
         else ((factorizeSymbolic s0 p).matU
              (factorizeNumeric (factorizeSymbolic s0 p) (copyDataCsr (factorizeSymbolic s0 p) A prev))).entry i c)
      = A.entry i c := by
  obtain ⟨s0', h0', hn, _, _, _, hlv⟩ := C08.ilu_symbolic A hA p
  rw [h0] at h0'
  cases h0'
  have hi' : i < A.rows := hn ▸ hi
  have hc' : c < A.rows := hn ▸ hc
  exact C08.ilu_factor_full p A hA s0 h0 prev hprev hpiv i c hi hc ((hlv i c hi' hc').mpr (hlev i c hi' hc'))

/-- blocked ILU (`ILUCoreBlocked::solve_il / solve_du`): the same model functions `solveIl` / `solveDu` / `iluSolve`,
    run by `drv_c08` at the ring of bs×bs rational blocks against the real BCSR code, over an arbitrary
    (non-commutative) ring: `(I+L) y = b`, `(D+U) z = y`, where `D_i` is any left inverse of the stored inverted pivot
    block. -/
theorem C08.ilu_solve_spec_blocked {R : Type} [Ring R] (s : IluSym) (hs : s.wf = true) (d : IluNum R)
    (hl : d.dataL.size = s.ciL.size) (hu : d.dataU.size = s.ciU.size)
    (Dm : Nat → R) (hd : ∀ i, i < s.n → Dm i * d.dataD.getD i 0 = 1) (b x0 : Array R) (hb : b.size = s.n)
    (hx0 : x0.size = s.n) :
    (iluSolve s d b x0).size = s.n ∧
    ∃ y : Array R, y.size = s.n ∧
      (∀ i, i < s.n → y.getD i 0 + ∑ j ∈ range s.n, (s.matL d).entry i j * y.getD j 0 = b.getD i 0) ∧
      (∀ i, i < s.n → Dm i * (iluSolve s d b x0).getD i 0
          + ∑ j ∈ range s.n, (s.matU d).entry i j * (iluSolve s d b x0).getD j 0 = y.getD i 0) :=
  BlkIlu.iluSolve_spec_ring s hs d hl hu Dm hd b x0 hb hx0

/-- the hypotheses of the sweep theorems are satisfiable by a non-trivial matrix (tridiagonal 3×3) -/
example : sortedDiag (α := Rat)
    { rows := 3, cols := 3, rowPtr := #[0, 2, 5, 7], colInd := #[0, 1, 0, 1, 2, 1, 2], val := #[2, 1, 1, 3, 1, 1, 4] }
    = true := by decide +kernel

/-- the hypothesis of the ILU solve theorem is satisfiable (pattern of the same matrix) -/
example : IluSym.wf { n := 3, rpL := #[0, 0, 1, 2], ciL := #[0, 1], rpU := #[0, 1, 2, 2], ciU := #[1, 2] } = true := by
  decide +kernel
