// T1 translator for C14 (execute-and-dump): enumerates, through FEAT's own factory lists, every cubature
// factory of the six reference shapes (name, kind, point-count range, aliases, in the order in which
// DynamicFactory::create tries them), the auto-degree alias map, and dumps every un-refined rule as created by
// the REAL DynamicFactory::create at `double` -- weights/coordinates as C99 hex floats (exact).
// Output: a line-oriented text on stdout that translate/cubature_gen.py turns into lean/FeatModel/Gen/Cubature*.lean
#include <kernel/cubature/dynamic_factory.hpp>
#include <kernel/cubature/scalar/dynamic_factory.hpp>
#include <cstdio>
#include <string>
#include <vector>
#include <iostream>

using namespace FEAT;
using namespace FEAT::Cubature;

struct FacInfo
{
  std::string kind, name;
  bool variadic; int minp, maxp;
  std::vector<std::pair<std::string,int>> aliases;
};

template<typename F_> struct KindOf { static const char* get() { return "other"; } };
template<template<typename> class D_, typename S_, bool v_> struct KindOf<DriverFactory<D_, S_, v_>> { static const char* get() { return "driver"; } };
template<typename SD_, typename S_, bool v_> struct KindOf<TensorProductFactory<SD_, S_, v_>> { static const char* get() { return "tensor"; } };
template<typename SD_, bool v_> struct KindOf<SimplexScalarFactory<SD_, v_>> { static const char* get() { return "scalar"; } };

template<typename F_, bool v_ = (F_::variadic != 0)> struct Range;
template<typename F_> struct Range<F_, false> { static int lo() { return F_::num_points; } static int hi() { return F_::num_points; } };
template<typename F_> struct Range<F_, true> { static int lo() { return F_::min_points; } static int hi() { return F_::max_points; } };

struct ListFunctor
{
  std::vector<FacInfo>& facs;
  explicit ListFunctor(std::vector<FacInfo>& f) : facs(f) {}
  struct AliasCollector
  {
    FacInfo& fi;
    void alias(const String& n) { fi.aliases.push_back(std::make_pair(std::string(n), -1)); }
    void alias(const String& n, int k) { fi.aliases.push_back(std::make_pair(std::string(n), k)); }
  };
  template<typename Factory_> void factory()
  {
    FacInfo fi;
    fi.kind = KindOf<Factory_>::get();
    fi.name = Factory_::name();
    fi.variadic = (Factory_::variadic != 0);
    fi.minp = Range<Factory_>::lo();
    fi.maxp = Range<Factory_>::hi();
    AliasCollector ac{fi};
    Factory_::alias(ac);
    facs.push_back(fi);
  }
};

template<typename Shape_>
static void dump_rule(const std::string& query)
{
  Rule<Shape_, double, double, Tiny::Vector<double, Shape_::dimension>> rule;
  bool ok = DynamicFactory::create(rule, String(query));
  if(!ok) { std::printf("NORULE %s\n", query.c_str()); return; }
  std::printf("RULE %s %s %d\n", query.c_str(), rule.get_name().c_str(), rule.get_num_points());
  for(int i = 0; i < rule.get_num_points(); ++i)
  {
    std::printf("P %a", rule.get_weight(i));
    for(int j = 0; j < Shape_::dimension; ++j) std::printf(" %a", rule.get_coord(i, j));
    std::printf("\n");
  }
  std::printf("END\n");
}

template<typename Shape_>
static void dump_shape(const char* tag, int simplex, long max_table_points)
{
  std::vector<FacInfo> facs;
  ListFunctor lf(facs);
  FactoryWrapper<Shape_>::factory_no_refine(lf);
  std::printf("SHAPE %s %d %d %d\n", tag, Shape_::dimension, simplex, int(AutoAlias<Shape_>::max_auto_degree));
  for(std::size_t k = 0; k < facs.size(); ++k)
  {
    const FacInfo& f = facs[k];
    std::printf("FACTORY %d %s %s %d %d %d\n", int(k), f.kind.c_str(), f.name.c_str(), int(f.variadic), f.minp, f.maxp);
    for(auto& a : f.aliases) std::printf("ALIAS %d %s %d\n", int(k), a.first.c_str(), a.second);
  }
  int maxd = int(AutoAlias<Shape_>::max_auto_degree) + 3;
  for(int d = 0; d <= maxd; ++d)
    std::printf("AUTO %d %s\n", d, AutoAlias<Shape_>::map("auto-degree:" + stringify(d)).c_str());
  // every un-refined rule (canonical names only; aliases resolve to these)
  for(std::size_t k = 0; k < facs.size(); ++k)
  {
    const FacInfo& f = facs[k];
    if(!f.variadic) { dump_rule<Shape_>(f.name); continue; }
    for(int n = f.minp; n <= f.maxp; ++n)
    {
      long cnt = n;
      if(f.kind == "tensor") { cnt = 1; for(int j = 0; j < Shape_::dimension; ++j) cnt *= n; }
      if(cnt > max_table_points) { std::printf("SKIP %s:%d %ld\n", f.name.c_str(), n, cnt); continue; }
      dump_rule<Shape_>(f.name + ":" + std::to_string(n));
    }
  }
  // the refinement of a rule is, per child cell, an affine map of the points and a scaling of the weights: recover
  // (c, b, A) of every child by refining the probe rule {0, e_1, .., e_d} (weights 1) with the REAL refinery
  {
    const int d = Shape_::dimension;
    typedef Rule<Shape_, double, double, Tiny::Vector<double, Shape_::dimension>> RuleType;
    RuleType probe(d + 1, "probe"), out;
    for(int i = 0; i <= d; ++i)
    {
      probe.get_weight(i) = 1.0;
      for(int j = 0; j < d; ++j) probe.get_coord(i, j) = (i == j + 1) ? 1.0 : 0.0;
    }
    RefineFactoryCore::create(out, probe, Index(1));
    int children = out.get_num_points() / (d + 1);
    for(int c = 0; c < children; ++c)
    {
      int o = c * (d + 1);
      std::printf("REFMAP %d %a", c, out.get_weight(o));
      for(int j = 0; j < d; ++j) std::printf(" %a", out.get_coord(o, j));          // b
      for(int r = 0; r < d; ++r)                                                    // A row-major: A[r][k]
        for(int k = 0; k < d; ++k) std::printf(" %a", out.get_coord(o + 1 + k, r) - out.get_coord(o, r));
      std::printf("\n");
    }
  }
  std::printf("ENDSHAPE\n");
}

int main(int argc, char** argv)
{
  long maxpts = (argc > 1) ? std::atol(argv[1]) : 220;
#ifdef FEAT_CUBATURE_TENSOR_PREFIX
  std::printf("CONFIG prefix 1\n");
#else
  std::printf("CONFIG prefix 0\n");
#endif
  dump_shape<Shape::Simplex<1>>("s1", 1, maxpts);
  dump_shape<Shape::Simplex<2>>("s2", 1, maxpts);
  dump_shape<Shape::Simplex<3>>("s3", 1, maxpts);
  dump_shape<Shape::Hypercube<1>>("h1", 0, maxpts);
  dump_shape<Shape::Hypercube<2>>("h2", 0, maxpts);
  dump_shape<Shape::Hypercube<3>>("h3", 0, maxpts);
  return 0;
}
