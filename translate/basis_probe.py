"""T1 translator for C15: samples the REAL FEAT reference evaluators (op `ref` of the C15 harness, exact rational
arithmetic) on a tensor grid, interpolates every value / gradient / Hessian component by a polynomial with rational
coefficients, cross-checks the polynomial on extra random rational points and emits lean/FeatModel/Gen/Basis*.lean
(polynomials + all grid samples; Lean re-checks every sample, so this interpolation code is not trusted).

Only assumption that remains trusted: the evaluator computes a polynomial of coordinate degree <= D.
"""
import os
import sys
from fractions import Fraction as Fr
from itertools import product

sys.path.insert(0, os.path.join(os.path.dirname(os.path.abspath(__file__)), "..", "checks"))
sys.path.insert(0, os.path.join(os.path.dirname(os.path.abspath(__file__)), "..", "checks", "props"))
import vlib  # noqa: E402
import c15_mesh as M  # noqa: E402

# parametric evaluators (family, kind, dim, coordinate degree bound)
TABLES = [
    ("L1", "S", 2, 1), ("L2", "S", 2, 2), ("L3", "S", 2, 3), ("D1", "S", 2, 1), ("CR", "S", 2, 1), ("PB", "S", 2, 3),
    ("L1", "S", 3, 1), ("L2", "S", 3, 2), ("D1", "S", 3, 1), ("CR", "S", 3, 1),
    ("L1", "H", 1, 1), ("L2", "H", 1, 2), ("L3", "H", 1, 3), ("B2", "H", 1, 2),
    # derivative-DOF elements in 1-D, probed on the reference interval [-1, 1] (Jacobian 1): Hermite-3, Bogner-Fox-Schmit
    ("HE", "H", 1, 3), ("BF", "H", 1, 3),
    ("L1", "H", 2, 1), ("L2", "H", 2, 2), ("L3", "H", 2, 3), ("B2", "H", 2, 2),
    ("L1", "H", 3, 1), ("L2", "H", 3, 2), ("L3", "H", 3, 3), ("B2", "H", 3, 2),
]


def vander_inv(nodes):
    """inverse of the Vandermonde matrix V[i][j] = nodes[i]^j (Gauss-Jordan in Fractions)"""
    n = len(nodes)
    a = [[Fr(x) ** j for j in range(n)] + [Fr(1 if i == k else 0) for k in range(n)] for i, x in enumerate(nodes)]
    for c in range(n):
        p = next(r for r in range(c, n) if a[r][c] != 0)
        a[c], a[p] = a[p], a[c]
        pv = a[c][c]
        a[c] = [x / pv for x in a[c]]
        for r in range(n):
            if r != c and a[r][c] != 0:
                f = a[r][c]
                a[r] = [x - f * y for x, y in zip(a[r], a[c])]
    return [row[n:] for row in a]


def nodes_of(kind, deg):
    """1-D interpolation nodes: the Lagrange lattice of the reference interval (makes most samples 0 or 1)"""
    if kind == "S":
        return [Fr(i, deg) for i in range(deg + 1)]
    return [Fr(-1) + Fr(2 * i, deg) for i in range(deg + 1)]


def interpolate(dim, deg, data, nodes):
    """data[grid index tuple] -> dict exponent tuple -> coefficient (tensor-product interpolation on `nodes`)"""
    vi = vander_inv(nodes)
    cur = dict(data)
    for ax in range(dim):
        new = {}
        for ix in product(range(deg + 1), repeat=dim):
            # coefficient index ix[ax] along axis ax = sum_k vi[ix[ax]][k] * cur[... k ...]
            s = Fr(0)
            for k in range(deg + 1):
                jx = ix[:ax] + (k,) + ix[ax + 1:]
                s += vi[ix[ax]][k] * cur[jx]
            new[ix] = s
        cur = new
    return {e: c for e, c in cur.items() if c != 0}


def poly_eval(p, x):
    s = Fr(0)
    for e, c in p.items():
        t = c
        for k, ek in enumerate(e):
            t *= x[k] ** ek
        s += t
    return s


def probe(binary, rng):
    """run the real evaluators; returns dict (fam, kind, dim) -> table"""
    lines, meta = [], []
    for fam, kind, dim, deg in TABLES:
        m = M.canonical_cell(kind, dim)
        grid = list(product(range(deg + 1), repeat=dim))
        extra = [tuple(Fr(rng.randint(-7, 9), rng.choice([2, 3, 5, 7])) for _ in range(dim)) for _ in range(12)]
        nodes = nodes_of(kind, deg)
        pts = [tuple(nodes[i] for i in g) for g in grid] + extra
        lines.append("ref %s %s 0 %d %s" % (fam, m.fmt(), len(pts), " ".join(vlib.frac_str(x) for p in pts for x in p)))
        meta.append((fam, kind, dim, deg, grid, extra))
    outs = vlib.run_lines([binary], lines)
    tables = {}
    for (fam, kind, dim, deg, grid, extra), out in zip(meta, outs):
        t = out.split()
        if t[0] != "R":
            raise RuntimeError("probe of %s/%s%d failed: %s" % (fam, kind, dim, out[:200]))
        nl, rg, rh = int(t[1]), int(t[2]), int(t[3])
        ncomp = 1 + (dim if rg else 0) + (dim * dim if rh else 0)
        vals = [M.pfr(x) for x in t[4:]]
        npts = len(grid) + len(extra)
        assert len(vals) == npts * nl * ncomp, (fam, kind, dim, len(vals), npts, nl, ncomp)

        def at(q, i, c):
            return vals[(q * nl + i) * ncomp + c]

        nodes = nodes_of(kind, deg)
        polys = [[interpolate(dim, deg, {g: at(q, i, c) for q, g in enumerate(grid)}, nodes) for c in range(ncomp)]
                 for i in range(nl)]
        for q, x in enumerate(extra):
            for i in range(nl):
                for c in range(ncomp):
                    if poly_eval(polys[i][c], x) != at(len(grid) + q, i, c):
                        raise RuntimeError("evaluator %s/%s%d component %d of basis function %d is not a polynomial of "
                                           "coordinate degree <= %d (mismatch at %s)" % (fam, kind, dim, c, i, deg, x))
        # sparse samples: (point, [(i * ncomp + c, value) for the non-zero entries])
        samples = [(tuple(nodes[k] for k in g),
                    [(i * ncomp + c, at(q, i, c)) for i in range(nl) for c in range(ncomp) if at(q, i, c) != 0])
                   for q, g in enumerate(grid)]
        tables[(fam, kind, dim)] = {"nl": nl, "rg": rg, "rh": rh, "deg": deg, "polys": polys, "samples": samples}
    # 3-D hypercube tables: find the tensor factorisation into the 1-D table of the same family (keeps Gen small)
    for (fam, kind, dim), tb in tables.items():
        if (kind, dim) != ("H", 3):
            continue
        one = tables[(fam, "H", 1)]["polys"]
        fac = {}
        for ix in product(range(len(one)), repeat=3):
            pr = {}
            for (ea,), ca in one[ix[0]][0].items():
                for (eb,), cb in one[ix[1]][0].items():
                    for (ec,), cc in one[ix[2]][0].items():
                        pr[(ea, eb, ec)] = pr.get((ea, eb, ec), 0) + ca * cb * cc
            fac[frozenset((e, c) for e, c in pr.items() if c != 0)] = ix
        tens = []
        for i in range(tb["nl"]):
            key = frozenset(tb["polys"][i][0].items())
            if key not in fac:
                raise RuntimeError("basis function %d of %s/H3 is not a tensor product of the 1-D basis" % (i, fam))
            tens.append(fac[key])
        tb["tensor"] = tens
    return tables


def lean_rat(x):
    # only Nat numerals in function-application form: fast to elaborate (no binop%/unop% elaborators)
    return "P %d %d" % (x.numerator, x.denominator) if x >= 0 else "N %d %d" % (-x.numerator, x.denominator)


def lean_sample(pt, rows):
    return "  smp [" + ", ".join(lean_rat(x) for x in pt) + "] [" + ", ".join(
        "%d" % k for k, v in rows) + "] [" + ", ".join(lean_rat(v) for k, v in rows) + "]"


def lean_poly(p, nv):
    terms = sorted(p.items())
    return "polyOf %d [%s] [%s]" % (nv, ", ".join(lean_rat(c) for e, c in terms),
                                    ", ".join(str(k) for e, c in terms for k in e))


def emit(tables, outdir):
    """one module per (kind, dim); every list is its own small `def` (big literals are slow to elaborate)"""
    os.makedirs(outdir, exist_ok=True)
    written = []
    groups = {}
    for (fam, kind, dim), tb in sorted(tables.items()):
        groups.setdefault((kind, dim), []).append((fam, tb))
    for (kind, dim), lst in sorted(groups.items()):
        name = "Basis%s%d" % (kind, dim)
        o = ["import FeatModel.Model.Poly"] + (["import FeatModel.Gen.BasisH1"] if (kind, dim) == ("H", 3) else []) + [
             "/-! GENERATED by translate/basis_probe.py from the real FEAT reference evaluators (exact sampling). Do not edit. -/",
             "namespace FeatModel.Gen.%s" % name, "open FeatModel.Poly", ""]
        for fam, tb in lst:
            nl, f = tb["nl"], fam.lower()
            snames = []
            for q, (pt, rows) in enumerate(tb["samples"]):
                o.append("def %s_s%d : List Rat × List Nat × List Rat :=" % (f, q))
                o.append(lean_sample(pt, rows))
                snames.append("%s_s%d" % (f, q))
            o.append("def %s_samples : List (List Rat × List Nat × List Rat) := [%s]" % (f, ", ".join(snames)))
            flags = "%s %s" % ("true" if tb["rg"] else "false", "true" if tb["rh"] else "false")
            if "tensor" in tb:
                # 3-D hypercube: only the factorisation into the 1-D table + the samples of the real evaluator
                o.append("def %s_idx : List (List Nat) :=" % f)
                o.append("  [" + ", ".join("[" + ", ".join(str(a) for a in ix) + "]" for ix in tb["tensor"]) + "]")
                o.append("def %s : BasisTab := tensorTab FeatModel.Gen.BasisH1.%s %d %s %s_idx %s_samples" % (
                    f, f, dim, flags, f, f))
                o.append("")
                continue
            for i in range(nl):
                o.append("def %s_v%d : Poly := %s" % (f, i, lean_poly(tb["polys"][i][0], dim)))
                if tb["rg"]:
                    o.append("def %s_g%d : List Poly := [%s]" % (f, i, ",\n  ".join(lean_poly(tb["polys"][i][1 + k], dim) for k in range(dim))))
                if tb["rh"]:
                    o.append("def %s_h%d : List Poly := [%s]" % (f, i, ",\n  ".join(
                        lean_poly(tb["polys"][i][1 + dim + k], dim) for k in range(dim * dim))))
            o.append("def %s : BasisTab := {" % f)
            o.append("  nvars := %d, nloc := %d, hasGrad := %s, hasHess := %s," % (
                dim, nl, "true" if tb["rg"] else "false", "true" if tb["rh"] else "false"))
            o.append("  vals := [%s]," % ", ".join("%s_v%d" % (f, i) for i in range(nl)))
            o.append("  grads := [%s]," % (", ".join("%s_g%d" % (f, i) for i in range(nl)) if tb["rg"] else ""))
            o.append("  hess := [%s]," % (", ".join("%s_h%d" % (f, i) for i in range(nl)) if tb["rh"] else ""))
            o.append("  samples := %s_samples }" % f)
            o.append("")
        o.append("end FeatModel.Gen.%s" % name)
        path = os.path.join(outdir, name + ".lean")
        text = "\n".join(o) + "\n"
        old = open(path).read() if os.path.exists(path) else None
        if old != text:
            with open(path, "w") as f:
                f.write(text)
        written.append(path)
    return written


def regenerate(binary, rng):
    tables = probe(binary, rng)
    files = emit(tables, os.path.join(vlib.LEAN_DIR, "FeatModel", "Gen"))
    return tables, files
