#!/usr/bin/env python3
"""T1 translator for property C10.

Extracts, from the CURRENT working tree of the repository under test,
  * kernel/geometry/intern/standard_index_refiner.hpp : every StandardIndexRefiner<Shape,cell_dim,face_dim>
    specialisation as a table of terms  x_k[j] = io? + (i | N*i + c | s_x[e] | N*s_x[e] + c | N*s_x[e] + sim.map(a,b))
  * kernel/geometry/intern/congruency_mapping.hpp     : CongruencyMapping<Shape,face_dim>::map tables
  * kernel/geometry/intern/face_index_mapping.hpp     : FaceIndexMapping<Shape,cell_dim,face_dim>::map tables
  * kernel/geometry/intern/standard_refinement_traits.hpp + kernel/shape.hpp : the counts (explicit constants are
    parsed; the two formula-defined families  FaceTraits<Simplex|Hypercube>  are evaluated from their parsed formula)
into lean/FeatModel/Gen/RefineTables.lean.  Any statement that is not recognised is an ERROR (exit code 3, message on
stderr); nothing is ever skipped silently.

usage: refine_tables.py [repo] [outfile]
"""
import os
import re
import sys
from math import comb

HERE = os.path.dirname(os.path.abspath(__file__))
VERIF = os.path.dirname(HERE)


class TranslateError(Exception):
    pass


def strip_comments(txt):
    txt = re.sub(r"/\*.*?\*/", " ", txt, flags=re.S)
    txt = re.sub(r"//[^\n]*", " ", txt)
    return txt


KIND = {"Simplex": "simplex", "Hypercube": "hypercube"}


# --------------------------------------------------------------------------------------------------
# counts
# --------------------------------------------------------------------------------------------------

def parse_face_traits(repo):
    """returns f(kind, cell_dim, face_dim) -> count, derived from the formulas written in kernel/shape.hpp"""
    txt = strip_comments(open(os.path.join(repo, "kernel/shape.hpp")).read())
    want = {
        # (specialisation header regex, expected count expression) -> python evaluation
        "simplex_gen": (r"struct FaceTraits<Simplex<cell_dim_>, face_dim_>\s*\{(.*?)\};",
                        "MetaMath::Binomial<cell_dim_ + 1, face_dim_ + 1>::value"),
        "simplex_0": (r"struct FaceTraits<Simplex<cell_dim_>, 0>\s*\{(.*?)\};", "cell_dim_ + 1"),
        "hyper_gen": (r"struct FaceTraits<Hypercube<cell_dim_>, face_dim_>\s*\{(.*?)\};",
                      "(1 << (cell_dim_ - face_dim_)) * MetaMath::Binomial<cell_dim_, face_dim_>::value"),
        "hyper_0": (r"struct FaceTraits<Hypercube<cell_dim_>, 0>\s*\{(.*?)\};", "(1 << cell_dim_)"),
        "vertex": (r"struct FaceTraits<Vertex, 0>\s*\{(.*?)\};", "1"),
    }
    for key, (rx, expr) in want.items():
        m = re.search(rx, txt, re.S)
        if not m:
            raise TranslateError("shape.hpp: FaceTraits specialisation %s not found" % key)
        c = re.search(r"static constexpr int count\s*=\s*(.*?);", m.group(1), re.S)
        if not c or re.sub(r"\s+", " ", c.group(1).strip()) != expr:
            raise TranslateError("shape.hpp: FaceTraits %s count formula changed: %r (translator knows %r)" % (
                key, c.group(1).strip() if c else None, expr))

    def f(kind, cd, fd):
        if fd > cd:
            return 0
        if cd == 0:
            return 1
        if kind == "simplex":
            return cd + 1 if fd == 0 else comb(cd + 1, fd + 1)
        return (1 << cd) if fd == 0 else (1 << (cd - fd)) * comb(cd, fd)
    return f


def parse_ref_traits(repo, face_count):
    """returns dict (kind, shape_dim, face_dim) -> count for shape_dim 1..3 (and vertex)"""
    txt = strip_comments(open(os.path.join(repo, "kernel/geometry/intern/standard_refinement_traits.hpp")).read())
    res = {}
    blocks = re.split(r"(?=\bstruct StandardRefinementTraits<)", txt)
    seen = set()
    for b in blocks[1:]:
        hdr = re.match(r"struct StandardRefinementTraits<\s*([^>]*>?)\s*,\s*(\w+)\s*>", b)
        if not hdr:
            raise TranslateError("refinement traits: cannot parse header %r" % b[:80])
        shape, fd = hdr.group(1).strip(), hdr.group(2)
        c = re.search(r"static constexpr int count\s*=\s*(.*?);", b, re.S)
        if not c:
            raise TranslateError("refinement traits: no count in %r" % b[:80])
        expr = re.sub(r"\s+", " ", c.group(1).strip())
        if shape == "Shape::Vertex" and fd == "face_dim_":
            if expr != "1":
                raise TranslateError("traits<Vertex>: unexpected count %r" % expr)
            seen.add("vertex")
        elif shape == "Shape::Hypercube<cell_dim_>" and fd == "face_dim_":
            if expr != "Shape::FaceTraits<ShapeType, cell_dim - face_dim>::count":
                raise TranslateError("traits<Hypercube>: unexpected count formula %r" % expr)
            for cd in (1, 2, 3):
                for f in range(cd + 1):
                    res[("hypercube", cd, f)] = face_count("hypercube", cd, cd - f)
            seen.add("hyper")
        elif shape == "Shape::Simplex<1>" and fd == "face_dim_":
            if expr != "Shape::FaceTraits<ShapeType, cell_dim - face_dim>::count":
                raise TranslateError("traits<Simplex<1>>: unexpected count formula %r" % expr)
            for f in range(2):
                res[("simplex", 1, f)] = face_count("simplex", 1, 1 - f)
            seen.add("s1")
        else:
            m = re.match(r"Shape::Simplex<(\d)>$", shape)
            if not m or not fd.isdigit() or not expr.isdigit():
                raise TranslateError("refinement traits: unclassified specialisation <%s,%s> count=%r" % (shape, fd, expr))
            res[("simplex", int(m.group(1)), int(fd))] = int(expr)
    for k in ("vertex", "hyper", "s1"):
        if k not in seen:
            raise TranslateError("refinement traits: family %s missing" % k)
    for kind in ("simplex", "hypercube"):
        for cd in (1, 2, 3):
            for f in range(cd + 1):
                if (kind, cd, f) not in res:
                    raise TranslateError("refinement traits: no count for %s<%d>,%d" % (kind, cd, f))
    return res


# --------------------------------------------------------------------------------------------------
# static tables (CongruencyMapping, FaceIndexMapping)
# --------------------------------------------------------------------------------------------------

def parse_static_tables(path, cls, nparams):
    txt = strip_comments(open(path).read())
    out = {}
    blocks = re.split(r"(?=\bclass %s<)" % cls, txt)
    for b in blocks[1:]:
        hdr = re.match(r"class %s<\s*Shape::(Simplex|Hypercube)<(\d)>\s*((?:,\s*\d\s*)+)>" % cls, b)
        if not hdr:
            raise TranslateError("%s: cannot parse header %r" % (cls, b[:80]))
        params = [int(x) for x in re.findall(r"\d", hdr.group(3))]
        if len(params) != nparams:
            raise TranslateError("%s: wrong number of parameters in %r" % (cls, b[:80]))
        m = re.search(r"static const int indices\[(\d+)\]\[(\d+)\]\s*=\s*\{(.*?)\}\s*;", b, re.S)
        if not m:
            raise TranslateError("%s<%s>: no indices table" % (cls, hdr.group(0)))
        r, c = int(m.group(1)), int(m.group(2))
        rows = re.findall(r"\{([^{}]*)\}", m.group(3))
        tab = [[int(x) for x in row.split(",") if x.strip()] for row in rows]
        if len(tab) != r or any(len(t) != c for t in tab):
            raise TranslateError("%s<%s>: table shape mismatch" % (cls, hdr.group(0)))
        if not re.search(r"return indices\[(orient|cell)\]\[(idx|face)\]\s*;", b):
            raise TranslateError("%s<%s>: map() is not a plain table lookup" % (cls, hdr.group(0)))
        out[(KIND[hdr.group(1)], int(hdr.group(2))) + tuple(params)] = tab
    return out


# --------------------------------------------------------------------------------------------------
# StandardIndexRefiner
# --------------------------------------------------------------------------------------------------

BOILER = [
    r"static constexpr int (shape_dim|cell_dim|face_dim) = \d+",
    r"typedef Shape::(Simplex|Hypercube)<shape_dim> ShapeType",
    r"typedef Shape::FaceTraits<ShapeType, cell_dim>::ShapeType CellType",
    r"typedef IndexSet<Shape::FaceTraits<CellType, face_dim>::count> IndexSetType",
    r"typedef IndexSetHolder<ShapeType> IndexSetHolderType",
    r"typedef IndexSetType::IndexTupleType IndexTupleType",
    r"typedef IndexSet<\d+> IndexSetType\w+",
    r"typedef IndexSetType\w+::IndexTupleType IndexTupleType\w+",
]
BOILER = [re.compile("^" + b + "$") for b in BOILER]


def parse_index_refiner(repo, face_count, ref_count):
    path = os.path.join(repo, "kernel/geometry/intern/standard_index_refiner.hpp")
    txt = strip_comments(open(path).read())
    end = txt.find("struct IndexRefineShapeWrapper")
    if end < 0:
        raise TranslateError("index refiner: wrapper section not found")
    # cut at the 'template<' that introduces the wrapper
    end = txt.rfind("template<", 0, end)
    body = txt[:end]
    blocks = re.split(r"(?=\bstruct StandardIndexRefiner<Shape::)", body)
    tables = {}
    for b in blocks[1:]:
        hdr = re.match(r"struct StandardIndexRefiner<Shape::(Simplex|Hypercube)<(\d)>\s*,\s*(\d)\s*,\s*(\d)\s*>", b)
        if not hdr:
            raise TranslateError("index refiner: cannot parse header %r" % b[:80])
        kind, sd, cd, fd = KIND[hdr.group(1)], int(hdr.group(2)), int(hdr.group(3)), int(hdr.group(4))
        name = "StandardIndexRefiner<%s<%d>,%d,%d>" % (hdr.group(1), sd, cd, fd)
        rest = b[hdr.end():]
        # a trailing 'template<>' belongs to the next specialisation
        rest = re.sub(r"template\s*<\s*>\s*$", "", rest.strip())
        # function signature
        sig = re.search(r"static Index refine\(\s*IndexSetType& index_set_out,\s*const Index offset,\s*"
                        r"const Index index_offsets\[\],\s*const IndexSetHolderType& index_set_holder_in\)", rest)
        if not sig:
            raise TranslateError(name + ": refine() signature not recognised")
        rest = rest[:sig.start()] + ";" + rest[sig.end():]
        # the loop header
        loops = re.findall(r"for\(Index i\(0\); i < (\w+); \+\+i\)", rest)
        if len(loops) != 1:
            raise TranslateError(name + ": expected exactly one entity loop, found %d" % len(loops))
        loopvar = loops[0]
        rest = re.sub(r"for\(Index i\(0\); i < \w+; \+\+i\)", ";", rest)
        stmts = [re.sub(r"\s+", " ", s).strip() for s in re.split(r"[;{}]", rest)]
        stmts = [s for s in stmts if s]
        checks = {"shape_dim": sd, "cell_dim": cd, "face_dim": fd}
        offs, sets, tuples, counts, simtypes, sims, outs = {}, {}, {}, {}, {}, {}, {}
        rows = {}
        nchild = None
        ret = None
        ncols = face_count(kind, cd, fd)

        def dimval(s):
            s = s.strip()
            if s in checks:
                return checks[s]
            if s.isdigit():
                return int(s)
            raise TranslateError(name + ": bad dimension expression %r" % s)

        for s in stmts:
            m = re.match(r"static constexpr int (shape_dim|cell_dim|face_dim) = (\d+)$", s)
            if m:
                if checks[m.group(1)] != int(m.group(2)):
                    raise TranslateError(name + ": %s constant contradicts the template arguments" % m.group(1))
                continue
            m = re.match(r"typedef Shape::(Simplex|Hypercube)<shape_dim> ShapeType$", s)
            if m:
                if KIND[m.group(1)] != kind:
                    raise TranslateError(name + ": ShapeType contradicts header")
                continue
            if any(rx.match(s) for rx in BOILER):
                continue
            m = re.match(r"const Index (io\w) = index_offsets\[(\d)\]$", s)
            if m:
                offs[m.group(1)] = int(m.group(2))
                continue
            m = re.match(r"const IndexSetType\w+& (index_set_\w+) = index_set_holder_in\.get_index_set<(\d),(\d)>\(\)$", s)
            if m:
                sets[m.group(1)] = (int(m.group(2)), int(m.group(3)))
                continue
            m = re.match(r"const Index (num_\w+) = (index_set_\w+)\.get_num_entities\(\)$", s)
            if m:
                if m.group(2) not in sets:
                    raise TranslateError(name + ": unknown index set %s" % m.group(2))
                counts[m.group(1)] = sets[m.group(2)][0]
                continue
            m = re.match(r"typedef Intern::SubIndexMapping<ShapeType, (\w+), (\w+)> (\w+)$", s)
            if m:
                simtypes[m.group(3)] = (dimval(m.group(1)), dimval(m.group(2)))
                continue
            m = re.match(r"const IndexTupleType\w+& (\w+) = (index_set_\w+)\[i\]$", s)
            if m:
                if m.group(2) not in sets:
                    raise TranslateError(name + ": unknown index set %s" % m.group(2))
                tuples[m.group(1)] = sets[m.group(2)]
                continue
            m = re.match(r"(\w+) (\w+)\((\w+), (\w+), (\w+)\)$", s)
            if m and m.group(1) in simtypes:
                c_d, f_d = simtypes[m.group(1)]
                a0, a1, a2 = m.group(3), m.group(4), m.group(5)
                if tuples.get(a0) != (sd, 0) or tuples.get(a1) != (sd, c_d) or sets.get(a2) != (c_d, 0):
                    raise TranslateError(name + ": SubIndexMapping %s has unexpected arguments (%s,%s,%s)" % (
                        m.group(2), a0, a1, a2))
                sims[m.group(2)] = (c_d, f_d)
                continue
            m = re.match(r"IndexTupleType& (\w+) = index_set_out\[offset \+ (\d+)\*i \+ (\d+)\]$", s)
            if m:
                n, k = int(m.group(2)), int(m.group(3))
                if nchild is None:
                    nchild = n
                if n != nchild:
                    raise TranslateError(name + ": inconsistent children stride")
                if k in outs.values():
                    raise TranslateError(name + ": child %d declared twice" % k)
                outs[m.group(1)] = k
                rows[k] = {}
                continue
            m = re.match(r"(\w+)\[(\d+)\] = (.*)$", s)
            if m and m.group(1) in outs:
                k, j, expr = outs[m.group(1)], int(m.group(2)), m.group(3).strip()
                if j in rows[k]:
                    raise TranslateError(name + ": entry %s[%d] assigned twice" % (m.group(1), j))
                e = re.match(r"(io\w) \+ (.*)$", expr)
                if not e or e.group(1) not in offs:
                    raise TranslateError(name + ": unclassified right-hand side %r" % expr)
                off = offs[e.group(1)]
                r = e.group(2).strip()
                term = None
                mm = re.match(r"i$", r)
                if mm:
                    term = (off, 1, None, ("const", 0))
                mm = re.match(r"(\d+)\*i \+ (\d+)$", r)
                if mm:
                    term = (off, int(mm.group(1)), None, ("const", int(mm.group(2))))
                mm = re.match(r"(\w+)\[(\d+)\]$", r)
                if mm and mm.group(1) in tuples:
                    term = (off, 1, tuples[mm.group(1)] + (int(mm.group(2)),), ("const", 0))
                mm = re.match(r"(\d+)\*(\w+)\[(\d+)\] \+ (\d+)$", r)
                if mm and mm.group(2) in tuples:
                    term = (off, int(mm.group(1)), tuples[mm.group(2)] + (int(mm.group(3)),), ("const", int(mm.group(4))))
                mm = re.match(r"(\d+)\*(\w+)\[(\d+)\] \+ (\w+)\.map\( ?(\d+), ?(\d+)\)$", r)
                if mm and mm.group(2) in tuples and mm.group(4) in sims:
                    c_d, f_d = sims[mm.group(4)]
                    src = tuples[mm.group(2)] + (int(mm.group(3)),)
                    a = int(mm.group(5))
                    # the mapped sub-entity must be the one whose child is addressed
                    if src[0] != sd or src[1] != c_d or src[2] != a:
                        raise TranslateError(name + ": %s.map(%d,..) does not address the sub-entity %r" % (mm.group(4), a, src))
                    term = (off, int(mm.group(1)), src, ("sim", c_d, f_d, a, int(mm.group(6))))
                if term is None:
                    raise TranslateError(name + ": unclassified right-hand side %r" % expr)
                # sanity: the source tuple must belong to the refined shape
                if term[2] is not None and term[2][0] != sd:
                    raise TranslateError(name + ": source tuple of foreign dimension in %r" % expr)
                rows[k][j] = term
                continue
            m = re.match(r"return (\d+)\*(\w+)$", s)
            if m:
                ret = (int(m.group(1)), m.group(2))
                continue
            raise TranslateError(name + ": unclassified statement %r" % s)
        if loopvar not in counts or counts[loopvar] != sd:
            raise TranslateError(name + ": loop bound %s is not the number of %d-dimensional entities" % (loopvar, sd))
        if ret is None or ret[1] != loopvar or ret[0] != nchild:
            raise TranslateError(name + ": return value does not match the children stride")
        if sorted(rows) != list(range(nchild)):
            raise TranslateError(name + ": children rows are not 0..%d" % (nchild - 1))
        if nchild != ref_count[(kind, sd, cd)]:
            raise TranslateError(name + ": %d children, refinement traits say %d" % (nchild, ref_count[(kind, sd, cd)]))
        tab = []
        for k in range(nchild):
            if sorted(rows[k]) != list(range(ncols)):
                raise TranslateError(name + ": child %d has entries %s, expected 0..%d" % (k, sorted(rows[k]), ncols - 1))
            tab.append([rows[k][j] for j in range(ncols)])
        tables[(kind, sd, cd, fd)] = tab
    # completeness: every (kind, sd<=3, cd<=sd, fd<cd) with children must exist
    for kind in ("simplex", "hypercube"):
        for sd in (1, 2, 3):
            for cd in range(1, sd + 1):
                for fd in range(cd):
                    if ref_count[(kind, sd, cd)] > 0 and (kind, sd, cd, fd) not in tables:
                        raise TranslateError("index refiner: specialisation %s<%d>,%d,%d missing" % (kind, sd, cd, fd))
    return tables


# --------------------------------------------------------------------------------------------------
# Lean output
# --------------------------------------------------------------------------------------------------

def lean_list(xs):
    return "[" + ", ".join(xs) + "]"


def lean_term(t):
    off, mult, src, add = t
    s = "none" if src is None else "some (%d, %d, %d)" % src
    a = ".const %d" % add[1] if add[0] == "const" else ".sim %d %d %d %d" % add[1:]
    return "⟨%d, %d, %s, %s⟩" % (off, mult, s, a)


def emit(repo):
    fc = parse_face_traits(repo)
    rc = parse_ref_traits(repo, fc)
    cong = parse_static_tables(os.path.join(repo, "kernel/geometry/intern/congruency_mapping.hpp"), "CongruencyMapping", 1)
    fim = parse_static_tables(os.path.join(repo, "kernel/geometry/intern/face_index_mapping.hpp"), "FaceIndexMapping", 2)
    tabs = parse_index_refiner(repo, fc, rc)
    o = []
    o.append("import FeatModel.Model.RefineTypes")
    o.append("/-! AUTOGENERATED by translate/refine_tables.py from kernel/shape.hpp and")
    o.append("kernel/geometry/intern/{standard_index_refiner,standard_refinement_traits,congruency_mapping,face_index_mapping}.hpp")
    o.append("of the repository under test.  Regenerated on every run of checks/check.py C10 -- do not edit. -/")
    o.append("namespace FeatModel.Gen.Refine")
    o.append("open FeatModel.Refine")
    o.append("")
    o.append("/-- `Shape::FaceTraits<kind<cellDim>, faceDim>::count` -/")
    o.append("def faceCount : Kind → Nat → Nat → Nat")
    for kind in ("simplex", "hypercube"):
        for cd in range(0, 4):
            for fd in range(0, cd + 1):
                o.append("  | .%s, %d, %d => %d" % (kind, cd, fd, fc(kind, cd, fd)))
    o.append("  | _, _, _ => 0")
    o.append("")
    o.append("/-- `StandardRefinementTraits<kind<shapeDim>, faceDim>::count` (shapeDim 0 is `Shape::Vertex`) -/")
    o.append("def refCount : Kind → Nat → Nat → Nat")
    o.append("  | _, 0, 0 => 1")
    for kind in ("simplex", "hypercube"):
        for sd in (1, 2, 3):
            for fd in range(sd + 1):
                o.append("  | .%s, %d, %d => %d" % (kind, sd, fd, rc[(kind, sd, fd)]))
    o.append("  | _, _, _ => 0")
    o.append("")
    o.append("/-- `CongruencyMapping<kind<shapeDim>, faceDim>::map(orient, idx)` as `table[orient][idx]` -/")
    o.append("def congMap : Kind → Nat → Nat → List (List Nat)")
    for key in sorted(cong):
        o.append("  | .%s, %d, %d => %s" % (key[0], key[1], key[2],
                                          lean_list(lean_list(map(str, r)) for r in cong[key])))
    o.append("  | _, _, _ => []")
    o.append("")
    o.append("/-- `FaceIndexMapping<kind<shapeDim>, cellDim, faceDim>::map(cell, face)` as `table[cell][face]` -/")
    o.append("def faceIndexMap : Kind → Nat → Nat → Nat → List (List Nat)")
    for key in sorted(fim):
        o.append("  | .%s, %d, %d, %d => %s" % (key[0], key[1], key[2], key[3],
                                              lean_list(lean_list(map(str, r)) for r in fim[key])))
    o.append("  | _, _, _, _ => []")
    o.append("")
    o.append("/-- `StandardIndexRefiner<kind<shapeDim>, cellDim, faceDim>`: one row per child, one term per local face -/")
    o.append("def indexTable : Kind → Nat → Nat → Nat → List (List Term)")
    for key in sorted(tabs):
        o.append("  | .%s, %d, %d, %d => [" % key)
        rows = tabs[key]
        for k, row in enumerate(rows):
            o.append("      " + lean_list(lean_term(t) for t in row) + ("," if k + 1 < len(rows) else "]"))
    o.append("  | _, _, _, _ => []")
    o.append("")
    o.append("end FeatModel.Gen.Refine")
    return "\n".join(o) + "\n", {"index_tables": len(tabs), "terms": sum(len(r) for t in tabs.values() for r in t),
                                 "cong_tables": len(cong), "fim_tables": len(fim)}


def regenerate(repo, out=None):
    """returns (changed, stats); raises TranslateError"""
    out = out or os.path.join(VERIF, "lean", "FeatModel", "Gen", "RefineTables.lean")
    text, stats = emit(repo)
    old = open(out).read() if os.path.exists(out) else None
    if old != text:
        os.makedirs(os.path.dirname(out), exist_ok=True)
        tmp = out + ".tmp%d" % os.getpid()
        with open(tmp, "w") as f:
            f.write(text)
        os.replace(tmp, out)
    return old != text, stats


if __name__ == "__main__":
    repo = sys.argv[1] if len(sys.argv) > 1 else os.environ.get("VERIF_REPO", "/repo")
    out = sys.argv[2] if len(sys.argv) > 2 else None
    try:
        ch, st = regenerate(repo, out)
    except TranslateError as e:
        print("TRANSLATE-ERROR: %s" % e, file=sys.stderr)
        sys.exit(3)
    print("ok changed=%s %s" % (ch, st))
